"""Coordinator: owns W pristine zygote processes and feeds them jobs."""
import json
import os
import queue
import subprocess
import sys
import threading
import time

VERIF = os.path.dirname(os.path.dirname(os.path.abspath(__file__)))
PY = os.environ.get("VERIF_PYTHON", "/venv/bin/python")


def zygote_env(hashseed="0", cpus=None):
    env = dict(os.environ)
    if cpus:
        env["VERIF_FAKE_CPUS"] = str(cpus)
    else:
        env.pop("VERIF_FAKE_CPUS", None)
    env.update({"OPENBLAS_NUM_THREADS": "1", "OMP_NUM_THREADS": "1", "MKL_NUM_THREADS": "1",
                "PYTHONHASHSEED": str(hashseed), "PYTHONDONTWRITEBYTECODE": "1"})
    env.setdefault("VERIF_REPO", "/repo")
    return env


class Zygote:
    def __init__(self, hashseed="0", cpus=None):
        self.p = subprocess.Popen([PY, "-m", "sim.zygote"], cwd=VERIF, env=zygote_env(hashseed, cpus),
                                  stdin=subprocess.PIPE, stdout=subprocess.PIPE, stderr=subprocess.DEVNULL,
                                  text=True, bufsize=1)
        line = self.p.stdout.readline()
        if not line:
            raise RuntimeError("zygote failed to start (cola import failed?)")
        self.hello = json.loads(line)

    def run(self, job):
        self.p.stdin.write(json.dumps(job) + "\n")
        self.p.stdin.flush()
        while True:
            line = self.p.stdout.readline()
            if not line:
                return {"id": job.get("id"), "status": "harness_error", "error": "zygote died"}
            try:
                res = json.loads(line)
            except ValueError:
                continue  # stray output
            if isinstance(res, dict) and "status" in res:
                return res

    def close(self):
        try:
            self.p.stdin.write(json.dumps({"kind": "quit"}) + "\n")
            self.p.stdin.flush()
            self.p.stdin.close()
        except Exception:
            pass
        try:
            self.p.wait(timeout=5)
        except Exception:
            self.p.kill()


class Pool:
    """W zygotes; run(jobs, on_result) streams jobs through them (order of completion)."""
    def __init__(self, workers=8, hashseeds=("0", ), cpus=None):
        self.workers = workers
        self.hashseeds = hashseeds
        self.cpus = cpus
        self.zs = []
        errs = []

        def start(i):
            try:
                self.zs.append(Zygote(self.hashseeds[i % len(self.hashseeds)], self.cpus))
            except Exception as e:  # noqa
                errs.append(e)

        ts = [threading.Thread(target=start, args=(i, )) for i in range(workers)]
        [t.start() for t in ts]
        [t.join() for t in ts]
        if errs or not self.zs:
            raise RuntimeError("could not start zygotes: %r" % errs[:1])
        self.hello = self.zs[0].hello

    def run(self, jobs, on_result, deadline_s=None, stop_flag=None):
        """jobs: iterable of job dicts.  Returns number of jobs completed."""
        q = queue.Queue(maxsize=4 * self.workers)
        done = [0]
        lock = threading.Lock()
        t_end = None if deadline_s is None else time.monotonic() + deadline_s

        def feeder():
            for j in jobs:
                if (t_end is not None and time.monotonic() > t_end) or (stop_flag is not None and stop_flag()):
                    break
                q.put(j)
            for _ in self.zs:
                q.put(None)

        def worker(z):
            while True:
                j = q.get()
                if j is None:
                    return
                r = z.run(j)
                with lock:
                    done[0] += 1
                    on_result(j, r)

        ft = threading.Thread(target=feeder, daemon=True)
        ft.start()
        ws = [threading.Thread(target=worker, args=(z, ), daemon=True) for z in self.zs]
        [w.start() for w in ws]
        [w.join() for w in ws]
        return done[0]

    def run_one(self, job, which=0):
        return self.zs[which % len(self.zs)].run(job)

    def close(self):
        for z in self.zs:
            z.close()
        self.zs = []

    def __enter__(self):
        return self

    def __exit__(self, *a):
        self.close()


def default_workers(tier):
    n = os.cpu_count() or 4
    return max(2, min(16, n) if tier == "thorough" else min(8, n))
