"""The allocator seam for object identity: the simulator decides that a new operator gets the address (id()) of a dead one.

CPython hands a freed block to a later object of the same size class, but WHICH later object depends on the state of
pymalloc's per-pool free lists -- a source of nondeterminism like any other: a history in which `id(new) == id(dead)`
must replay in every interpreter, not only when the allocator happens to agree.  Mechanism (no hook in /repo, no C):

  first make  (of a slot that a later step wants to reuse) the simulator first takes ownership of one whole pymalloc pool W
              of the operators' size class (fillers: empty instances of a plain class, 48 bytes like every LinearOperator
              instance), frees most of it so that W is the pool allocated from next, builds the operator -- it lands in
              W -- and re-occupies what is left of W ("reserves");
  drop step   the operator is really freed (gc.collect(); finalizers and weakref callbacks run); its block T is the only
              free block of W, and a placeholder takes it at once, so nothing long-lived can;
  make step   (`reuse_id_of`) calibrate: T and R reserves are freed in a known order (hand-out order r_1..r_R, T), the
              recipe is built and the reserve r_j its instance landed on is read off; then everything free in W is
              re-occupied and freed again with T in position j; the recipe is built again and lands on T.  A miss is
              freed at once (a part of it may sit on T).  The constructor call is deterministic, so one calibration suffices;
              up to 5 rounds are tried.

A hunt that fails is counted (`address_hunt_failed`) and the program continues without reuse (a miss can only hide a
violation, never raise one); the determinism self-test asserts the hit rate of the loop programs.
"""
import gc

POOL_SHIFT = 14  # pymalloc pools are 16 KiB (CPython >= 3.10)
_new = object.__new__


class _Filler:
    pass


def _pool(o):
    return id(o) >> POOL_SHIFT


def occupy(target, limit=600_000):
    """Allocate fillers until one sits at `target` (which must be free).  Returns (filler_at_target | None, the others)."""
    others = []
    n = 0
    while n < limit:  # (no range()/iterator object here: a range object is itself a 48-byte block of the hunted size class)
        f = _new(_Filler)
        if id(f) == target:
            return f, others
        others.append(f)
        n += 1
    return None, others


class OwnedPool:
    def __init__(self):
        fill = []
        count = {}
        n = 0
        best = 0
        while n < 40_000 and (n < 1400 or best < 300):
            f = _new(_Filler)
            fill.append(f)
            p = _pool(f)
            count[p] = count.get(p, 0) + 1
            n += 1
            # a pool counts once allocation has moved on from it (it is then full)
            if n > 1 and _pool(fill[n - 2]) != p and count[_pool(fill[n - 2])] > best:
                best = count[_pool(fill[n - 2])]
        last = _pool(fill[-1])  # the only pool that may not be full
        full = [p for p in sorted(count) if p != last]
        self.pool = max(full, key=lambda p: count[p]) if full else last
        self.size = count[self.pool]
        mine = [f for f in fill if _pool(f) == self.pool]
        rest = [f for f in fill if _pool(f) != self.pool]
        del fill, f
        rest.clear()  # other pools first ...
        self.sentinels = mine[:3]
        del mine[:3]
        mine.clear()  # ... then W: it was full, so it becomes the head of pymalloc's list for this size class
        self.reserves = []

    def refill(self):
        """Re-occupy every free block of W."""
        other = []
        miss = 0
        while miss < 3000:
            f = _new(_Filler)
            if _pool(f) == self.pool:
                self.reserves.append(f)
                miss = 0
            else:
                other.append(f)
                miss += 1
        other.clear()

    def contains(self, addr):
        return addr >> POOL_SHIFT == self.pool

    def arrange(self, holder, pos, width):
        """Free `width` reserves and the placeholder (the only element of `holder`) so that the hand-out order is
        r_0 .. r_{pos-1}, target, r_pos ..; returns the addresses of r_0.. in hand-out order."""
        width = min(width, len(self.reserves))
        take = self.reserves[len(self.reserves) - width:]
        del self.reserves[len(self.reserves) - width:]
        order = [id(r) for r in take]
        pos = min(pos, width)
        i = width
        while i > pos:  # deepest first
            i -= 1
            take.pop()
        holder.clear()
        while take:
            take.pop()
        return order


def build_at(pool, holder, target, build, rounds=8, width=240):
    """Build an object with build() such that id(obj) == target.  Returns (obj, hit, trace)."""
    trace = []
    kept = []
    pos = width  # calibration round: target deepest
    obj = None
    n = 0
    while n < rounds:
        n += 1
        order = pool.arrange(holder, pos, width)
        obj = build()
        if id(obj) == target:
            pool.refill()
            del kept
            return obj, True, trace
        where = id(obj)
        outside = where not in order
        if outside and pos == width:
            # calibration landed in another pool: a block freed there during the build was handed out first.  Keep this
            # object alive so that it pins that block, and calibrate again.
            kept.append(obj)
        obj = None  # otherwise a miss dies at once (it, or a part of it, may sit on the target)
        gc.collect()
        trace.append("outside" if outside else order.index(where))
        pool.refill()  # all free blocks of W back (target included)
        got = None
        k = 0
        while k < len(pool.reserves):
            if id(pool.reserves[k]) == target:
                got = k
                break
            k += 1
        if got is None:
            trace.append("target-lost")
            return None, False, trace
        holder.append(pool.reserves.pop(got))
        if outside:
            pos = width
        else:
            j = order.index(where)
            pos = j if j < pos else j + 1
    trace.append("rounds-exhausted")
    return None, False, trace
