"""Per-property orchestration of the phases."""
import json
import os
import time

from . import program as P
from .check import (BUDGET, VERIF, Run, finalize_violation, load_known, phase_fresh, phase_random, phase_xproc,
                    fresh_interpreter_run)
from .coordinator import Pool

ASSUME = [
    "NumPy backend only (jax/torch not installed); vmap/linear_transpose/sparse_csr/to_np are a harness shim (stub)",
    "re-entrancy is LIFO; caller threads are scheduled at source-line granularity inside cola/ only (C extensions and third-party "
    "code such as the dispatcher run atomically); C18's threaded histories share operands read-only and instantiate every class "
    "single-threaded first",
    "alloc_fail covers NumPy data allocations only (PyDataMem handler), not Python objects or LAPACK workspaces; "
    "interpreter crashes on NumPy's own NULL-allocation paths are counted as env_crash and not judged",
    "bitwise reproducibility of identical computations with single-threaded OpenBLAS (established by the determinism self-test)",
    "seeded search samples histories: a clean batch is evidence, not proof",
]


def phase_panel(run, pool):
    t = time.time()
    cfgs = P.panel_configs(run.seed, run.tier)
    cfgs.sort(key=lambda c: -c.get("K", 0))  # the expensive configurations first
    n0 = run.evals
    pool.run(({"id": i, "kind": "panel", "config": c, "deadline": 240} for i, c in enumerate(cfgs)), run.absorb)
    run.phase_info["unbiasedness_panel"] = {"configs": run.evals - n0, "keys_per_config": 256, "threshold_sigma": 7.0,
                                            "max_z": round(run.max.get("panel_max_z", 0.0), 3),
                                            "wall_s": round(time.time() - t, 1)}


def phase_paths(run, pool):
    """C17: exhaustive small sweeps (algorithm-object entry points, routine x kind matrix, key interactions, large-draw
    programs), all invariants on, and the result of every call compared across ALL these histories."""
    t = time.time()
    progs = (P.path_programs_c17() + P.large_programs_c17() + P.matrix_programs_c17() + P.key_programs_c17()
             + P.steps_programs_c17(run.tier) + P.interaction_programs_c17(run.tier) + P.abort_programs_c17()
             + (P.huge_programs_c17() if run.tier == "thorough" else []))
    n0 = run.evals
    table, conflicts = {}, []
    nobs = 0
    for i, p in enumerate(progs):  # continuous observer of the process-wide generator after every source line (small programs only)
        c = p["program"]["config"]
        if not (c.get("large") or c.get("steps") or p["name"].startswith(("huge/", "nested"))) and (
                run.tier != "quick" or c.get("matrix") or (i + run.seed) % 4 == 0):
            c["line_observer"] = True
            nobs += 1

    def on(job, res):
        run.absorb(job, res)
        for key, dig in (res.get("call_results") or {}).items():
            prev = table.get(key)
            if prev is None:
                table[key] = (dig, job["prog_index"])
            elif prev[0] != dig and len(conflicts) < 4:
                conflicts.append((key, prev[1], job["prog_index"]))

    def tag(p):
        c = p["program"]["config"]
        return ("large:" if c.get("large") else "matrix:" if c.get("matrix") else "keys:" if c.get("keys")
                else "steps:" if c.get("steps") else "path:") + p["name"]

    pool.run(({"id": i, "prog_index": i, "kind": "program", "program": dict(p["program"], want_results=True), "name": p["name"],
               "want_program": False, "deadline": 600 if p["name"].startswith("huge/") else 240, "run_seed": tag(p)}
              for i, p in enumerate(progs)), on)
    for key, ia, ib in conflicts[:2]:
        pa, pb = dict(progs[ia]["program"], want_results=True), dict(progs[ib]["program"], want_results=True)
        run.violations.append(({"kind": "program", "run_seed": "history:" + progs[ib]["name"], "id": -1},
                               {"status": "violation", "program": None, "events_digest": None, "pair": [pa, pb],
                                "violation": {"property": "C17", "invariant": "I-KEYED-HISTORY", "step": None, "detail": {
                                    "what": "the same routine on the same operator with the same key returned different results in "
                                            "two histories", "call": key, "history_a": progs[ia]["name"],
                                    "history_b": progs[ib]["name"]}}}))
    run.phase_info["dispatch_path_sweep"] = {"programs": run.evals - n0, "algorithm_classes": len(P.PATH_CLASSES),
                                            "entry_points_accepting_the_object": len(P.PATH_ROUTINES),
                                            "operator_kinds": len(P.path_kinds()), "exhaustive": True,
                                            "routine_x_kind_matrix_programs": len(P.matrix_programs_c17()),
                                            "key_interaction_programs": len(P.key_programs_c17()),
                                            "product_count_programs": len(P.steps_programs_c17(run.tier)),
                                            "large_draw_programs": len(P.large_programs_c17()),
                                            "abort_then_reuse_programs": len(P.abort_programs_c17()),
                                            "operand_interaction_programs": len(P.interaction_programs_c17(run.tier)),
                                            "calls_compared_across_histories": len(table),
                                            "programs_under_continuous_rng_observer": nobs,
                                            "source_line_events_observed": int(run.stats.get("observer_line_events", 0)),
                                            "cross_history_conflicts": len(conflicts),
                                            "wall_s": round(time.time() - t, 1)}


def phase_threads(run, pool):
    """C17: caller threads under the baton scheduler (sim/threads.py): seeded interleavings of 2-3 caller threads (each its
    own operators and keys, some sharing an operator) plus a thread drawing from np.random, and the systematic
    single-pre-emption sweep over every distinct source line."""
    from . import threads as T
    t = time.time()
    n0 = run.evals
    nrand = 150 if run.tier == "quick" else 3000
    sweeps = T.line_sweep_programs()
    if run.tier == "quick":
        sweeps = [p for p in sweeps if (p["name"].endswith("<-hutch") and "/cold-mid/" not in p["name"])
                  or p["name"] in ("threads-line-sweep/cold-mid/lanczos<-lanczos", "threads-line-sweep/cold-mid/hutch<-hutch")]
    jobs = [{"id": "thr-sweep-%d" % i, "kind": "program", "program": p["program"], "name": p["name"], "want_program": True,
             "deadline": 900, "run_seed": p["name"]} for i, p in enumerate(sweeps)]
    for p in T.sweep_programs(run.seed, 1 if run.tier == "quick" else 6):
        jobs.append({"id": p["name"], "kind": "program", "program": p["program"], "name": p["name"], "want_program": True,
                     "deadline": 240, "run_seed": p["name"]})
    import random as _random
    for i in range(nrand):
        rs = P.derive_seed(run.seed, "C17-threads", run.tier, i)
        jobs.append({"id": "thr-%d" % i, "kind": "program", "program": T.gen(_random.Random(rs), rs, run.tier), "want_program": True,
                     "deadline": 240, "run_seed": rs})
    pool.run(jobs, run.absorb)
    run.phase_info["caller_threads"] = {
        "histories": run.evals - n0, "line_sweep_programs": len(sweeps), "routine_pair_programs": len(jobs) - len(sweeps) - nrand,
        "random_histories": nrand, "threaded_executions": int(run.stats.get("thread_runs", 0)),
        "preemption_points_passed": int(run.stats.get("thread_preemption_points", 0)),
        "baton_switches": int(run.stats.get("thread_switches", 0)),
        "distinct_lines_preempted_once_each": int(run.stats.get("thread_distinct_lines_preempted", 0)),
        "wall_s": round(time.time() - t, 1)}


def phase_threads18(run, pool):
    """C18: caller threads on SHARED operands under the baton scheduler (sim/threads18.py): a continuous observer after every
    source line of every (operator kind x operation), a single-pre-emption line sweep with a partner operation on the same
    operands, seeded interleavings of 2-3 caller threads."""
    from . import threads18 as T18
    import random as _random
    t = time.time()
    n0 = run.evals
    obs = T18.observer_programs(run.tier)
    sweeps = T18.line_sweep_programs(run.tier, run.seed)
    nrand = 200 if run.tier == "quick" else 4000
    jobs = [{"id": "t18-obs-%d" % i, "kind": "program", "program": p["program"], "name": p["name"], "want_program": True,
             "deadline": 300, "run_seed": p["name"]} for i, p in enumerate(obs)]
    jobs += [{"id": "t18-sweep-%d" % i, "kind": "program", "program": p["program"], "name": p["name"], "want_program": True,
              "deadline": 900, "run_seed": p["name"]} for i, p in enumerate(sweeps)]
    for i in range(nrand):
        rs = P.derive_seed(run.seed, "C18-threads", run.tier, i)
        jobs.append({"id": "t18-%d" % i, "kind": "program", "program": T18.gen(_random.Random(rs), rs, run.tier),
                     "want_program": True, "deadline": 240, "run_seed": rs})
    pool.run(jobs, run.absorb)
    run.phase_info["caller_threads"] = {
        "histories": run.evals - n0, "continuous_observer_programs": len(obs),
        "source_line_events_observed": int(run.stats.get("observer_line_events", 0)),
        "line_sweep_programs": len(sweeps), "random_histories": nrand,
        "threaded_executions": int(run.stats.get("thread_runs", 0)),
        "preemption_points_passed": int(run.stats.get("thread_preemption_points", 0)),
        "baton_switches": int(run.stats.get("thread_switches", 0)),
        "distinct_lines_preempted_once_each": int(run.stats.get("thread_distinct_lines_preempted", 0)),
        "wall_s": round(time.time() - t, 1)}


def phase_crash(run, pool, progs, max_jobs):
    t = time.time()
    if len(progs) > max_jobs:
        off = (run.seed * 7) % len(progs)
        progs = (progs + progs)[off:off + max_jobs]
    summ = {"programs": 0, "crash_points": 0, "raised": 0, "absorbed": 0, "env_crash": 0, "names": []}

    def on(job, res):
        run.absorb(job, res)
        if res.get("status") == "ok":
            summ["programs"] += 1
            summ["crash_points"] += res.get("enumerated", 0)
            summ["raised"] += res.get("raised", 0)
            summ["absorbed"] += res.get("absorbed", 0)
            summ["env_crash"] += res.get("env_crash", 0)
            if len(summ["names"]) < 60:
                summ["names"].append("%s:%d" % (job.get("name"), res.get("nalloc", 0)))

    pool.run(({"id": i, "kind": "crashenum", "program": p["program"], "target": p["target"], "name": p.get("name"),
               "deadline": 600, "run_seed": p["program"].get("run_seed")} for i, p in enumerate(progs)), on)
    summ["wall_s"] = round(time.time() - t, 1)
    summ["exhaustive_over_allocation_points_of_listed_steps"] = True
    run.phase_info["crash_point_enumeration"] = summ
    run.stats["env_crash_points"] += summ["env_crash"]


def phase_crash_lines(run, pool, progs, max_jobs, cap, always=()):
    """Crash points at SOURCE-LINE granularity (sim/crashenum.py, mode 'lines'): an asynchronous interrupt at the first and last
    occurrence of every distinct line of cola/ that the target step executes; then all invariants, the step again without fault
    (must equal the twin) and the rest of the history."""
    t = time.time()
    if len(progs) > max_jobs:
        fixed = [p for p in progs if p.get("name", "").startswith(always)] if always else []
        rest = [p for p in progs if p not in fixed]
        off = (run.seed * 13 + 5) % len(rest)
        progs = fixed + (rest + rest)[off:off + max(0, max_jobs - len(fixed))]
    summ = {"programs": 0, "line_crash_points": 0, "interrupts_delivered": 0, "distinct_lines": 0, "line_events_of_twins": 0,
            "env_crash": 0, "points_per_program_cap": cap}

    def on(job, res):
        run.absorb(job, res)
        if res.get("status") == "ok":
            summ["programs"] += 1
            summ["line_crash_points"] += res.get("enumerated", 0)
            summ["interrupts_delivered"] += res.get("raised", 0)
            summ["distinct_lines"] += res.get("distinct_lines", 0)
            summ["line_events_of_twins"] += res.get("nlines", 0)
            summ["env_crash"] += res.get("env_crash", 0)

    pool.run(({"id": "ln-%d" % i, "kind": "crashenum", "mode": "lines", "cap": cap, "offset": run.seed, "program": p["program"],
               "target": p["target"], "name": p.get("name"), "deadline": 600, "run_seed": p["program"].get("run_seed")}
              for i, p in enumerate(progs)), on)
    summ["wall_s"] = round(time.time() - t, 1)
    run.phase_info["line_level_crash_points"] = summ


def run_property(prop, tier, seed, workers=None, budget=None):
    run = Run(prop, tier, seed, workers)
    known = load_known()
    B = BUDGET[tier]
    outcomes = []
    with Pool(run.workers) as pool:
        run.hello = pool.hello
        phase_random(run, pool, budget if budget is not None else B["random"])
        if not run.violations and not run.harness:
            if prop == "C17":
                phase_panel(run, pool)
                phase_paths(run, pool)
                phase_crash(run, pool, P.crash_programs_c17(seed), B["crash_jobs"][prop])
                if not run.violations and not run.harness:
                    phase_crash_lines(run, pool, P.crash_programs_c17(seed), 24 if tier == "quick" else 10**6, 120 if tier == "quick" else 400)
                if not run.violations and not run.harness:
                    phase_threads(run, pool)
            else:
                from . import program18 as P18
                P18.phase_sweep(run, pool, B["sweep_len"])
                if not run.violations and not run.harness:
                    P18.phase_diff(run, pool, B["diff"])
                phase_crash(run, pool, P18.crash_programs_c18(seed, tier), B["crash_jobs"][prop])
                if not run.violations and not run.harness:
                    phase_crash_lines(run, pool, P18.line_crash_programs_c18(tier), 80 if tier == "quick" else 10**6,
                                      30 if tier == "quick" else 100, always=("products_after_abort_", ))
                if not run.violations and not run.harness:
                    phase_threads18(run, pool)
        seen_cls = set()
        for job, res in run.violations[:6]:
            kind, info = finalize_violation(run, pool, job, res, known)
            if kind == "known":
                run.known_hits[info["id"]] += 1
                continue
            cls = (res["violation"]["invariant"], )
            if kind == "violation" and cls in seen_cls:
                continue
            seen_cls.add(cls)
            outcomes.append((kind, info, res["violation"]))
    # remaining (un-minimised) violations: count known ones without minimising
    for job, res in run.violations[6:]:
        from .check import match_known
        kf = match_known(res["violation"], known)
        if kf is not None:
            run.known_hits[kf["id"]] += 1
    if not outcomes and not run.harness:
        mism = phase_xproc(run, B["xproc"], extra_programs=P.large_programs_c17() if prop == "C17" else ())
        for i, rs, d in mism[:2]:
            from .check import replay_dir
            path = os.path.join(replay_dir(), "%s-xproc-%s.json" % (prop, "".join(ch if ch.isalnum() or ch in "-_.=" else "_" for ch in str(rs))))
            os.makedirs(os.path.dirname(path), exist_ok=True)
            prog = None
            if isinstance(rs, str) and rs.startswith("large:"):
                prog = [q["program"] for q in P.large_programs_c17() if "large:" + q["name"] == rs][0]
            json.dump({"property": prop, "xproc": True, "run_seed": rs, "tier": tier, "verif_seed": seed, "program": prog,
                       "digests": {k: list(v) for k, v in d.items()},
                       "violation": {"property": prop, "invariant": "I-KEYED-XPROC",
                                     "detail": {"what": "same history, different process environment (PYTHONHASHSEED 1 vs 77, "
                                                        "simulated usable CPUs 1 vs 6): different results"}}},
                      open(path, "w"), indent=1)
            outcomes.append(("violation" if prop == "C17" else "harness", path if prop == "C17" else
                             "results depend on PYTHONHASHSEED: " + path, {"invariant": "I-KEYED-XPROC"}))
        fm = phase_fresh(run, 3 if tier == "quick" else 25)
        for rs, sa, sb in fm[:2]:
            outcomes.append(("harness", "fresh-interpreter run of seed %s differs from forked run (%s vs %s)" % (rs, sa, sb),
                             {"invariant": "determinism"}))
    nviol = sum(1 for k, _, _ in outcomes if k == "violation")
    from . import evidence
    evidence.write(run, nviol, ASSUME, known)
    code = 0
    for fid, n in sorted(run.known_hits.items()):
        f = [x for x in known["findings"] if x["id"] == fid][0]
        print("KNOWN-FINDING: property=%s %s (matched %d runs)" % (f["property"], f["what"], n))
    for kind, info, viol in outcomes:
        if kind == "violation":
            print("VIOLATION property=%s replay=%s" % (prop, info))
            print("  invariant=%s" % viol.get("invariant"))
            code = max(code, 1)
    for kind, info, viol in outcomes:
        if kind == "harness":
            print("HARNESS-ERROR %s" % info)
            code = 2 if code == 0 else code
    for job, res in run.harness[:3]:
        print("HARNESS-ERROR %s seed=%s: %s" % (res.get("status"), job.get("run_seed"), (res.get("error") or "")[-1500:]))
        code = 2 if code == 0 else code
    print("%s %s tier=%s seed=%d: %d evaluations, %d distinct abstract schedules (%d non-trivial), status=%s, faults fired=%s, wall=%.0fs"
          % ("OK" if code == 0 else "FAIL", prop, tier, seed, run.evals, len(run.sigs), len(run.nontrivial_sigs),
             dict(run.status), dict(run.fired), time.time() - run.t0))
    return code
