"""Registry of public cola entry points the simulated user can call.

Each entry: name -> (callable(**resolved args) -> result, tags).  The callables are thin:
they only forward to the public API, so every exception raised below them is cola's.
"""
import numpy as np

import cola
import cola.linalg as cl
from cola.linalg.decompositions.arnoldi import arnoldi, arnoldi_eigs
from cola.linalg.decompositions.lanczos import lanczos, lanczos_eigs
from cola.linalg.eig.lobpcg import LOBPCG, lobpcg
from cola.linalg.eig.power_iteration import PowerIteration, power_iteration
from cola.linalg.inverse.cg import cg
from cola.linalg.inverse.gmres import gmres
from cola.linalg.trace.diagonal_estimation import hutchinson_diag_estimate

from . import world as _world


def _user_fn(f):
    """A user-supplied scalar function: like an operator callback, it yields to the scheduler."""
    def g(x):
        _world.user_fn_yield()
        return f(x)

    g.__name__ = getattr(f, "__name__", "f")
    return g


UNARY = {
    "log": _user_fn(np.log),
    "exp": _user_fn(np.exp),
    "id": _user_fn(lambda x: x),
    "sq": _user_fn(lambda x: x * x),
}

FNS = {}


def reg(name, *tags):
    def deco(f):
        FNS[name] = (f, frozenset(tags))
        return f

    return deco


def _lazy_import(path):
    import importlib
    return importlib.import_module(path)


# ============================================================ randomised routines (C17)
@reg("hutch", "keyed", "hutch")
def _hutch(A, k=0, bs=100, tol=3e-2, max_iters=10000, pbar=False, rand="normal", key=None):
    return hutchinson_diag_estimate(A, k=k, bs=bs, tol=tol, max_iters=max_iters, pbar=pbar, rand=rand, key=key)


@reg("diag_hutch", "keyed", "hutch")
def _diag_hutch(A, k=0, alg=None, **kw):
    return cl.diag(A, k, alg if alg is not None else cl.Hutch(**kw))


@reg("trace_hutch", "keyed", "hutch")
def _trace_hutch(A, alg=None, **kw):
    return cl.trace(A, alg if alg is not None else cl.Hutch(**kw))


@reg("diag_auto", "keyed", "hutch")
def _diag_auto(A, k=0, alg=None, **kw):
    return cl.diag(A, k, alg if alg is not None else cl.Auto(**kw))


@reg("trace_auto", "keyed", "hutch")
def _trace_auto(A, alg=None, **kw):
    return cl.trace(A, alg if alg is not None else cl.Auto(**kw))


@reg("slq", "keyed", "shim")
def _slq(A, fun="log", **kw):
    slq = _lazy_import("cola.linalg.tbd.slq")
    return slq.stochastic_lanczos_quad(A, UNARY[fun], **kw)


@reg("lanczos", "keyed")
def _lanczos(A, v0=None, **kw):
    return lanczos(A, v0, **kw)


@reg("Lanczos_call", "keyed")
def _Lanczos_call(A, v0=None, **kw):
    return cl.Lanczos(start_vector=v0, **kw)(A)


@reg("lanczos_eigs", "keyed")
def _lanczos_eigs(A, v0=None, **kw):
    return lanczos_eigs(A, v0, **kw)


@reg("eig_lanczos", "keyed")
def _eig_lanczos(A, k=2, which="LM", v0=None, alg=None, **kw):
    return cl.eig(A, k, which, alg if alg is not None else cl.Lanczos(start_vector=v0, **kw))


@reg("svd_lanczos", "keyed")
def _svd_lanczos(A, k=2, which="LM", v0=None, alg=None, **kw):
    return _lazy_import("cola.linalg.svd.svd").svd(A, k, which, alg if alg is not None else cl.Lanczos(start_vector=v0, **kw))


@reg("arnoldi", "keyed")
def _arnoldi(A, v0=None, **kw):
    return arnoldi(A, v0, **kw)


@reg("Arnoldi_call", "keyed")
def _Arnoldi_call(A, v0=None, **kw):
    return cl.Arnoldi(start_vector=v0, **kw)(A)


@reg("arnoldi_eigs", "keyed")
def _arnoldi_eigs(A, v0=None, **kw):
    return arnoldi_eigs(A, v0, **kw)


@reg("eig_arnoldi", "keyed")
def _eig_arnoldi(A, k=2, which="LM", v0=None, alg=None, **kw):
    return cl.eig(A, k, which, alg if alg is not None else cl.Arnoldi(start_vector=v0, **kw))


@reg("power_iteration", "keyed")
def _power_iteration(A, **kw):
    return power_iteration(A, **kw)


@reg("PowerIteration_call", "keyed")
def _PowerIteration_call(A, **kw):
    return PowerIteration(**kw)(A)


@reg("eig_power", "keyed")
def _eig_power(A, alg=None, **kw):
    return cl.eig(A, 1, "LM", alg if alg is not None else PowerIteration(**kw))


@reg("eig_auto1", "keyed")
def _eig_auto1(A, alg=None, **kw):
    return cl.eig(A, 1, "LM", alg if alg is not None else cl.Auto(**kw))


@reg("eigmax", "keyed")
def _eigmax(A, alg=None, **kw):
    return cl.eigmax(A, alg if alg is not None else cl.Auto(**kw))


@reg("nystrom", "keyed")
def _nystrom(A, rank=2, **kw):
    pre = _lazy_import("cola.linalg.preconditioning.preconditioners")
    return pre.NystromPrecond(A, rank, **kw)


@reg("cg_nystrom", "keyed")
def _cg_nystrom(A, b, rank=2, key=None, **kw):
    pre = _lazy_import("cola.linalg.preconditioning.preconditioners")
    P = pre.NystromPrecond(A, rank, key=key)
    return cg(A, b, P=P, **kw)


@reg("nystrom_pipeline", "keyed")
def _nystrom_pipeline(A, b, rank=2, key=None, max_iters=3):
    """Typical preconditioned workflow: P, P^-1, P^1/2 (structural rules of the preconditioning module), CG with P."""
    pre = _lazy_import("cola.linalg.preconditioning.preconditioners")
    P = pre.NystromPrecond(A, rank, key=key)
    Pinv = pre.inverse(P)
    Psq = pre.sqrt(P)
    x, info = cg(A, b, P=P, max_iters=max_iters)
    return [P @ b, Pinv @ b, Psq @ b, x, info]


@reg("adanys", "keyed", "unkeyed")
def _adanys(A, rank=2, bounds=(0.1, 0.5, 2.0), **kw):
    pre = _lazy_import("cola.linalg.preconditioning.preconditioners")
    return pre.AdaNysPrecond(A, rank, tuple(bounds), **kw)


@reg("select_rank", "keyed", "unkeyed")
def _select_rank(A, rank_init=1, rank_max=4, tol=1e-3, mult=2):
    pre = _lazy_import("cola.linalg.preconditioning.preconditioners")
    return pre.select_rank_adaptively(A, rank_init, rank_max, tol, mult)


@reg("randomized_svd", "keyed", "unkeyed")
def _randomized_svd(A, rank=2):
    rs = _lazy_import("cola.linalg.tbd.randomized_svd")
    return rs.randomized_svd(A, rank)


@reg("lobpcg", "keyed")
def _lobpcg(A, **kw):
    return lobpcg(A, **kw)


@reg("eig_lobpcg", "keyed")
def _eig_lobpcg(A, k=2, which="LM", alg=None, **kw):
    return cl.eig(A, k, which, alg if alg is not None else LOBPCG(**kw))


@reg("svd_lobpcg", "keyed")
def _svd_lobpcg(A, k=2, which="LM", alg=None, **kw):
    return _lazy_import("cola.linalg.svd.svd").svd(A, k, which, alg if alg is not None else LOBPCG(**kw))


@reg("logdet_lh", "keyed", "shim")
def _logdet_lh(A, lkw=None, hkw=None, lalg=None, halg=None):
    return cl.logdet(A, lalg if lalg is not None else cl.Lanczos(**(lkw or {})),
                     halg if halg is not None else cl.Hutch(**(hkw or {})))


@reg("slogdet_lh", "keyed", "shim")
def _slogdet_lh(A, lkw=None, hkw=None, lalg=None, halg=None):
    return cl.slogdet(A, lalg if lalg is not None else cl.Lanczos(**(lkw or {})),
                      halg if halg is not None else cl.Hutch(**(hkw or {})))


@reg("slogdet_ah", "keyed", "shim")
def _slogdet_ah(A, akw=None, hkw=None, aalg=None, halg=None):
    return cl.slogdet(A, aalg if aalg is not None else cl.Arnoldi(**(akw or {})),
                      halg if halg is not None else cl.Hutch(**(hkw or {})))


@reg("alg_call", "keyed")
def _alg_call(A, alg):
    """The algorithm object applied directly: Lanczos(...)(A), Arnoldi(...)(A), PowerIteration(...)(A)"""
    return alg(A)


# ============================================================ deterministic actions (C18)
@reg("matvec")
def _matvec(A, x):
    return A @ x


@reg("rmatvec")
def _rmatvec(A, x):
    return x @ A


@reg("to_dense")
def _to_dense(A):
    return A.to_dense()


@reg("densify")
def _densify(A):
    return cola.densify(A)


@reg("diag_exact")
def _diag_exact(A, k=0, bs=100):
    return cl.diag(A, k, cl.Exact(bs=bs))


@reg("diag_default")
def _diag_default(A, k=0):
    return cl.diag(A, k)


@reg("trace_default")
def _trace_default(A):
    return cl.trace(A)


@reg("trace_exact")
def _trace_exact(A):
    return cl.trace(A, cl.Exact())


def _alg(name, kw):
    if not isinstance(name, str):
        return name  # a caller-owned algorithm object reused across calls
    kw = dict(kw or {})
    return {
        "Auto": cl.Auto, "LU": cl.LU, "Cholesky": cl.Cholesky, "CG": cl.CG, "GMRES": cl.GMRES,
        "Lanczos": cl.Lanczos, "Arnoldi": cl.Arnoldi, "Eig": cl.Eig, "Eigh": cl.Eigh, "Exact": cl.Exact,
        "Hutch": cl.Hutch, "PowerIteration": PowerIteration, "LOBPCG": LOBPCG,
    }[name](**kw)


@reg("inv")
def _inv(A, alg=None, akw=None, x0=None, P=None):
    """inv(A[, alg]) -> operator (stored in the pool by the caller when `out` is given)."""
    if alg is None:
        return cl.inv(A)
    akw = dict(akw or {})
    if x0 is not None:
        akw["x0"] = x0
    if P is not None:
        akw["P"] = P
    return cl.inv(A, _alg(alg, akw))


@reg("solve")
def _solve(A, b, alg=None, akw=None, x0=None, P=None):
    if alg is None:
        return cl.solve(A, b)
    akw = dict(akw or {})
    if x0 is not None:
        akw["x0"] = x0
    if P is not None:
        akw["P"] = P
    return cl.solve(A, b, _alg(alg, akw))


@reg("rsolve")
def _rsolve(A, b, alg=None, akw=None):
    """left solve  b @ inv(A[, alg])"""
    Ainv = cl.inv(A) if alg is None else cl.inv(A, _alg(alg, akw))
    return b @ Ainv


@reg("pinv")
def _pinv(A, alg=None, akw=None):
    return cl.pinv(A) if alg is None else cl.pinv(A, _alg(alg, akw))


@reg("pinv_solve")
def _pinv_solve(A, b, alg=None, akw=None):
    return (cl.pinv(A) if alg is None else cl.pinv(A, _alg(alg, akw))) @ b


@reg("logdet")
def _logdet(A, alg=None, akw=None, talg=None, tkw=None):
    args = []
    if alg is not None:
        args.append(_alg(alg, akw))
        if talg is not None:
            args.append(_alg(talg, tkw))
    return cl.logdet(A, *args)


@reg("slogdet")
def _slogdet(A, alg=None, akw=None, talg=None, tkw=None):
    args = []
    if alg is not None:
        args.append(_alg(alg, akw))
        if talg is not None:
            args.append(_alg(talg, tkw))
    return cl.slogdet(A, *args)


@reg("unary")
def _unary(A, f="exp", alg=None, akw=None, v0=None):
    """exp/log/sqrt/isqrt/pow/apply_unary -> operator"""
    akw = dict(akw or {})
    if v0 is not None:
        akw["start_vector"] = v0
    a = [] if alg is None else [_alg(alg, akw)]
    if f == "exp":
        return cl.exp(A, *a)
    if f == "log":
        return cl.log(A, *a)
    if f == "sqrt":
        return cl.sqrt(A, *a)
    if f == "isqrt":
        return cl.isqrt(A, *a)
    if f.startswith("pow"):
        return cl.pow(A, float(f[3:]), *a)
    return cl.apply_unary(UNARY[f[3:]], A, *a)  # "ap:sq" etc.


@reg("unary_apply")
def _unary_apply(A, x, **kw):
    return _unary(A, **kw) @ x


@reg("eig")
def _eig(A, k=2, which="LM", alg=None, akw=None, v0=None):
    akw = dict(akw or {})
    if v0 is not None:
        akw["start_vector"] = v0
    if alg is None:
        return cl.eig(A, k, which)
    return cl.eig(A, k, which, _alg(alg, akw))


@reg("eigmax_d")
def _eigmax_d(A):
    return cl.eigmax(A)


@reg("eigmin_d")
def _eigmin_d(A):
    return cl.eigmin(A)


@reg("svd")
def _svd(A, k=2, which="LM", alg=None, akw=None):
    svd = _lazy_import("cola.linalg.svd.svd").svd
    if alg is None:
        return svd(A, k, which)
    return svd(A, k, which, _alg(alg, akw))


@reg("cholesky")
def _cholesky(A):
    return _lazy_import("cola.linalg.decompositions.decompositions").cholesky(A)


@reg("plu")
def _plu(A):
    return _lazy_import("cola.linalg.decompositions.decompositions").plu(A)


@reg("cg")
def _cg(A, b, x0=None, P=None, **kw):
    return cg(A, b, x0=x0, P=P, **kw)


@reg("gmres")
def _gmres(A, b, x0=None, **kw):
    return gmres(A, b, x0=x0, **kw)


@reg("flatten")
def _flatten(A):
    vals, unflatten = A.flatten()
    return [vals, unflatten(vals)]


@reg("isa")
def _isa(A, name="PSD"):
    return A.isa(getattr(cola, name))


def tags(name):
    return FNS[name][1]


def call(_fn, **args):
    return FNS[_fn][0](**args)
