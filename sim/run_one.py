"""Run ONE simulated history in a really fresh interpreter (replay / cross-validation).

usage: python -m sim.run_one --seed <run_seed> --property C17 [--tier quick]
       python -m sim.run_one --program <file.json>          (a replay file or a bare program)
Prints the result record as JSON on stdout.
"""
import argparse
import json
import os
import sys

PIN = {"OPENBLAS_NUM_THREADS": "1", "OMP_NUM_THREADS": "1", "MKL_NUM_THREADS": "1"}


def ensure_env():
    need = any(os.environ.get(k) != v for k, v in PIN.items()) or "PYTHONHASHSEED" not in os.environ
    if need:
        env = dict(os.environ)
        env.update(PIN)
        env.setdefault("PYTHONHASHSEED", "0")
        os.execve(sys.executable, [sys.executable, "-m", "sim.run_one"] + sys.argv[1:], env)


def main():
    ap = argparse.ArgumentParser()
    ap.add_argument("--seed", type=int)
    ap.add_argument("--property", default="C17")
    ap.add_argument("--tier", default="quick")
    ap.add_argument("--program")
    ap.add_argument("--brief", action="store_true")
    a = ap.parse_args()
    ensure_env()
    from . import world  # noqa
    from . import interp, program
    if a.program:
        obj = json.load(open(a.program))
        prog = obj.get("program", obj)
    else:
        prog = program.generate(a.property, a.seed, a.tier, {})
    res = interp.run_program(prog)
    if a.brief:
        res.pop("program", None)
    json.dump(res, sys.stdout, indent=1, default=str)
    sys.stdout.write("\n")


if __name__ == "__main__":
    main()
