"""Self-tests of the simulator: determinism (smoke / full) and sensitivity (mutants).

./check selftest smoke         ~20 s: zygote starts, simalloc works, 40 seeds/property x 2 PYTHONHASHSEEDs agree
./check selftest determinism   >= 2000 seeds/property x 2 executions (different zygotes, worker counts 4 and 16,
                               PYTHONHASHSEED 1 and 77) + 50 really fresh interpreters
./check selftest sensitivity   every patch under selftest/mutants/ and seeded/*/patch.diff applied to a scratch copy
                               of /repo (under /tmp, removed afterwards); the owning check must report a violation,
                               and (with VERIF_MUT_PYTEST=1) the pinned test-suite must still pass on the mutant
"""
import glob
import json
import os
import shutil
import subprocess
import sys
import tempfile
import time

from . import program as P
from .check import VERIF, fresh_interpreter_run
from .coordinator import PY, Pool

CLAIMED = ("C17", "C18")


def _digests(prop, seeds, workers, hashseed, tier="quick"):
    out = {}
    with Pool(workers, (hashseed, )) as pool:
        hello = pool.hello

        def on(job, res):
            out[job["id"]] = (res.get("status"), res.get("events_digest"), res.get("results_digest"))

        pool.run(({"id": i, "kind": "seed", "property": prop, "tier": tier, "want_program": False, "deadline": 240,
                   "run_seed": P.derive_seed(987654321, prop, tier, i)} for i in seeds), on)
    return out, hello


def determinism(n, workers_a, workers_b, fresh_n):
    bad = 0
    for prop in CLAIMED:
        t = time.time()
        a, hello = _digests(prop, range(n), workers_a, "1")
        b, _ = _digests(prop, range(n), workers_b, "77")
        mism = [i for i in range(n) if a.get(i) != b.get(i)
                and "env_crash" not in (a.get(i, ("", ))[0], b.get(i, ("", ))[0])
                and "env_hang" not in (a.get(i, ("", ))[0], b.get(i, ("", ))[0])
                and "harness_timeout" not in (a.get(i, ("", ))[0], b.get(i, ("", ))[0])]
        st = {}
        for v in a.values():
            st[v[0]] = st.get(v[0], 0) + 1
        print("determinism %s: %d seeds x 2 (workers %d/%d, PYTHONHASHSEED 1/77): %d mismatches; statuses %s; %.0fs; simalloc=%s"
              % (prop, n, workers_a, workers_b, len(mism), st, time.time() - t, hello.get("simalloc")))
        for i in mism[:5]:
            print("  MISMATCH seed#%d run_seed=%d: %s vs %s" % (i, P.derive_seed(987654321, prop, "quick", i), a.get(i), b.get(i)))
        bad += len(mism)
        if any(k in ("harness_error", ) for k in st):
            print("  HARNESS-ERROR statuses present")
            bad += 1
        fm = 0
        for i in range(fresh_n):
            rs = P.derive_seed(987654321, prop, "quick", i)
            r = fresh_interpreter_run(rs, prop, hashseed=str(500 + i))
            got = (r.get("status"), r.get("events_digest"), r.get("results_digest"))
            if a.get(i) is not None and got != a[i] and "env_crash" not in (a[i][0], ) and r.get("status") != "harness_error":
                fm += 1
                print("  FRESH-INTERPRETER MISMATCH run_seed=%d: %s vs %s" % (rs, a[i], got))
        if fresh_n:
            print("  fresh interpreters: %d seeds, %d mismatches" % (fresh_n, fm))
        bad += fm
    bad += determinism_threads(max(60, n // 5), workers_a, workers_b)
    bad += determinism_lines(workers_a, workers_b)
    return 0 if bad == 0 else 2


def determinism_threads(n, workers_a, workers_b):
    """Caller-thread histories: the same seeded programs in two sets of zygotes (other PYTHONHASHSEED, other worker count) --
    status, event log (pre-emption points passed, every baton switch, every result digest, every user draw) must agree."""
    import random

    from . import threads as T
    t = time.time()
    progs = []
    for i in range(n):
        rs = P.derive_seed(987654321, "C17-threads", "quick", i)
        progs.append(T.gen(random.Random(rs), rs))
    progs += [p["program"] for p in T.line_sweep_programs()[:4]]
    from . import threads18 as T18
    for i in range(n // 2):  # C18: caller threads on shared operands
        rs = P.derive_seed(987654321, "C18-threads", "quick", i)
        progs.append(T18.gen(random.Random(rs), rs))
    progs += [p["program"] for p in T18.observer_programs("quick")[::37]] + [p["program"] for p in T18.line_sweep_programs("quick")[::25]]

    def digests(workers, hs):
        out = {}
        with Pool(workers, (hs, )) as pool:
            pool.run(({"id": i, "kind": "program", "program": p, "deadline": 150} for i, p in enumerate(progs)),
                     lambda j, r: out.__setitem__(j["id"], (r.get("status"), r.get("events_digest"), r.get("n_events"))))
        return out

    a, b = digests(workers_a, "1"), digests(workers_b, "77")
    mism = [i for i in range(len(progs)) if a.get(i) != b.get(i)]
    st = {}
    for v in a.values():
        st[v[0]] = st.get(v[0], 0) + 1
    print("determinism caller threads (C17, C18): %d threaded histories x 2 (workers %d/%d, PYTHONHASHSEED 1/77): %d mismatches; "
          "statuses %s; %.0fs" % (len(progs), workers_a, workers_b, len(mism), st, time.time() - t))
    for i in mism[:5]:
        print("  MISMATCH threads program #%d: %s vs %s" % (i, a.get(i), b.get(i)))
    return len(mism) + (1 if any(k != "ok" for k in st) else 0)


def determinism_lines(workers_a, workers_b):
    """Line-level crash-point enumeration: the same programs in two sets of zygotes (other PYTHONHASHSEED): number of line events of
    the twin, distinct lines, interrupts delivered and the status must agree -- a line count that depended on the environment
    would make `x = {interrupt: e}` replays land elsewhere."""
    from . import program18 as P18
    t = time.time()
    jobs = ([dict(p, prop="C17") for p in P.crash_programs_c17(0)[:4]]
            + [dict(p, prop="C18") for p in P18.line_crash_programs_c18("quick") if p["name"].startswith(("products_after_abort_sl", "solve_cg", "flatten_unary"))][:6])

    def digests(workers, hs):
        out = {}
        with Pool(workers, (hs, )) as pool:
            pool.run(({"id": i, "kind": "crashenum", "mode": "lines", "cap": 15, "program": p["program"], "target": p["target"],
                       "deadline": 300} for i, p in enumerate(jobs)),
                     lambda j, r: out.__setitem__(j["id"], (r.get("status"), r.get("nlines"), r.get("distinct_lines"), r.get("enumerated"),
                                                            r.get("raised"))))
        return out

    a, b = digests(workers_a, "1"), digests(workers_b, "77")
    mism = [i for i in range(len(jobs)) if a.get(i) != b.get(i)]
    print("determinism line-level crash points: %d programs x 2 (PYTHONHASHSEED 1/77): %d mismatches; %d interrupts; %.0fs"
          % (len(jobs), len(mism), sum((v[4] or 0) for v in a.values()), time.time() - t))
    for i in mism[:5]:
        print("  MISMATCH line program #%d (%s): %s vs %s" % (i, jobs[i].get("name"), a.get(i), b.get(i)))
    return len(mism) + (1 if any(v[0] != "ok" for v in a.values()) else 0)


def scratch_copy():
    d = tempfile.mkdtemp(prefix="cola-mut-", dir="/tmp")
    for name in ("cola", "tests", "pytest.ini", "setup.cfg", "setup.py", "pyproject.toml"):
        src = os.path.join(os.environ.get("VERIF_REPO", "/repo"), name)
        if os.path.isdir(src):
            shutil.copytree(src, os.path.join(d, name), ignore=shutil.ignore_patterns("__pycache__"))
        elif os.path.exists(src):
            shutil.copy(src, os.path.join(d, name))
    return d


def mutants():
    out = []
    for p in sorted(glob.glob(os.path.join(VERIF, "selftest", "mutants", "*.patch"))):
        meta = {}
        mp = p[:-6] + ".json"
        if os.path.exists(mp):
            meta = json.load(open(mp))
        out.append((os.path.basename(p)[:-6], p, meta))
    for d in sorted(glob.glob(os.path.join(VERIF, "seeded", "*"))):
        p = os.path.join(d, "patch.diff")
        if os.path.exists(p):
            meta = json.load(open(os.path.join(d, "meta.json"))) if os.path.exists(os.path.join(d, "meta.json")) else {}
            out.append(("seeded/" + os.path.basename(d), p, meta))
    return out


def sensitivity(only=None, tier="quick"):
    res = []
    with_pytest = os.environ.get("VERIF_MUT_PYTEST") == "1"
    for name, patch, meta in mutants():
        if only and only not in name:
            continue
        prop = meta.get("property") or meta.get("breaks") or ("C17" if "c17" in name.lower() else "C18")
        d = scratch_copy()
        try:
            r = subprocess.run(["patch", "-p1", "-s", "-d", d, "-i", patch], capture_output=True, text=True)
            if r.returncode != 0:
                res.append((name, prop, "PATCH-FAILED", r.stdout[-300:] + r.stderr[-300:]))
                continue
            env = dict(os.environ)
            ev = tempfile.mkdtemp(prefix="cola-mut-ev-", dir="/tmp")
            env.update({"VERIF_REPO": d, "VERIF_EVIDENCE_DIR": ev, "VERIF_REPLAY_DIR": ev})
            t = time.time()
            c = subprocess.run([os.path.join(VERIF, "check"), prop, "--tier", tier], env=env, capture_output=True,
                               text=True, timeout=3600)
            lines = [ln for ln in c.stdout.splitlines() if ln.startswith(("VIOLATION", "  invariant", "HARNESS", "KNOWN"))]
            verdict = "CAUGHT" if c.returncode == 1 and any(ln.startswith("VIOLATION") for ln in lines) else "MISSED"
            note = "; ".join(lines[:3])
            if with_pytest:
                pt = subprocess.run([PY, "-m", "pytest", "-q", "-p", "no:cacheprovider", "--timeout=900", "-x", "-k", "numpy",
                                     "--continue-on-collection-errors"], cwd=d, capture_output=True, text=True)
                note += " | pytest: " + (pt.stdout.strip().splitlines() or ["?"])[-1]
            res.append((name, prop, verdict, "%s (exit %d, %.0fs)" % (note, c.returncode, time.time() - t)))
            shutil.rmtree(ev, ignore_errors=True)
        finally:
            shutil.rmtree(d, ignore_errors=True)
    missed = 0
    for name, prop, verdict, note in res:
        print("%-40s %s %-7s %s" % (name, prop, verdict, note))
        if verdict != "CAUGHT":
            missed += 1
    print("sensitivity: %d mutants, %d caught, %d not caught" % (len(res), len(res) - missed, missed))
    return 0 if missed == 0 else 1


REACH = {
    "C17": ["draw_inside_callback", "raise_at_first", "raise_at_last", "raise_at_middle", "reenter_same_key",
            "reenter_other_key", "repeat_with_different_global_state", "reseed_inside_callback", "setstate_inside_callback",
            "hutch_hit_max_iters", "hutch_stopped_by_tol", "shim_vmap_used", "alloc_fail_inside_rng_section",
            "crash_points_enumerated", "user_fn_callbacks", "alg_objects_made", "twins", "panel_calls",
            "address_reused_after_drop", "thread_runs", "thread_switches", "thread_line_sweeps"],
    "C18": ["class_first_arrayless_then_arrays", "class_first_arrays_then_arrayless", "distinct_concrete_classes_created",
            "raise_at_first", "raise_at_middle", "repeat_after_fault", "reenter_same_key", "annotate_then_check_original",
            "to_dtype_move", "flatten_leaf_substituted", "optional_module_imported", "default_Auto_paths",
            "alloc_fail_in_constructor", "crash_points_enumerated", "alg_objects_made", "user_fn_callbacks",
            "sweep_histories", "observer_snapshots", "clock_negative_jump", "address_reused_after_drop",
            "thread_runs", "thread_switches", "thread_line_sweeps", "observer_line_events"],
}
FAULTS = ["raise", "alloc_fail", "nonfinite", "clock", "pbar_fail", "interrupt"]


def reach():
    """Every reach probe and every fault kind must have fired in the evidence of the last run of each check."""
    bad = 0
    for prop in CLAIMED:
        path = os.path.join(os.environ.get("VERIF_EVIDENCE_DIR") or os.path.join(VERIF, "evidence"), prop + ".json")
        try:
            ev = json.load(open(path))
        except Exception as e:  # noqa
            print("reach %s: no evidence (%r)" % (prop, e))
            bad += 1
            continue
        pr = ev["coverage"].get("reach_probes", {})
        fk = ev["coverage"].get("fault_kinds_fired", {})
        zero = [p for p in REACH[prop] if not pr.get(p)] + ["fault:" + f for f in FAULTS if not fk.get(f)]
        print("reach %s (tier %s): %d probes, stuck at zero: %s" % (prop, ev.get("tier"), len(REACH[prop]) + len(FAULTS), zero or "none"))
        bad += len(zero)
        hunts, failed = pr.get("address_reused_after_drop", 0), pr.get("address_hunt_failed", 0)
        print("  allocator seam: %d addresses steered, %d hunts failed" % (hunts, failed))
        if failed > 0.02 * max(1, hunts):
            bad += 1
    return 0 if bad == 0 else 1


def main(arg, tier, seed):
    arg = arg or "smoke"
    if arg == "reach":
        return reach()
    if arg == "smoke":
        return determinism(40, 4, 4, 0)
    if arg == "determinism":
        return determinism(int(os.environ.get("VERIF_DET_N", "2000")), 4, 16, 50)
    if arg.startswith("sensitivity"):
        only = arg.split(":", 1)[1] if ":" in arg else None
        return sensitivity(only, tier)
    print("unknown selftest %r" % arg)
    return 2
