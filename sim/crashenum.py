"""Crash-point enumeration: fail EVERY NumPy data allocation of one step, once each.

Runs inside a forked pristine child.  The prefix of the program is executed once; at the
target step the process state is snapshotted by fork(): one grandchild counts the step's
allocations fault-free (the twin: N, reference outcome), then one grandchild per k < N runs
the step with alloc_fail(k) followed by the remaining steps fault-free, all invariants on.
"""
import copy
import json
import os

from . import world
from .interp import Ctx, HarnessBound, Violation


def _fork_run(fn):
    r, w = os.pipe()
    pid = os.fork()
    if pid == 0:
        code = 0
        try:
            os.close(r)
            world.CRUMB_FD = None
            out = fn()
            data = json.dumps(out, default=str).encode()
            off = 0
            while off < len(data):
                off += os.write(w, data[off:off + 65536])
        except BaseException:  # noqa
            code = 3
        finally:
            os._exit(code)
    os.close(w)
    chunks = []
    while True:
        b = os.read(r, 1 << 16)
        if not b:
            break
        chunks.append(b)
    os.close(r)
    _, st = os.waitpid(pid, 0)
    if os.WIFSIGNALED(st):
        return {"status": "env_crash", "signal": os.WTERMSIG(st)}
    if not chunks:
        return {"status": "harness_error", "error": "grandchild exit %d" % st}
    return json.loads(b"".join(chunks).decode())


def run(job):
    prog = job["program"]
    target = job["target"]
    minb = job.get("minb", 0)
    cap = job.get("cap", 4000)
    ctx = Ctx(prog)
    ctx.mode = "explicit"
    steps = prog["steps"]
    idx = [i for i, s in enumerate(steps) if s["id"] == target][0]
    try:
        ctx.model.reseed(prog.get("rng0", prog.get("run_seed", 0) & 0xFFFFFFFF))
        for st in steps[:idx]:
            ctx.exec_step(st)
    except Violation as v:
        return {"status": "violation", "violation": {"property": v.prop, "invariant": v.inv, "detail": v.detail,
                                                     "step": None}, "program": prog, "phase": "prefix"}
    except HarnessBound as b:
        return {"status": "bound", "error": str(b)}
    tstep = steps[idx]

    def twin():
        c = copy.deepcopy(tstep)
        c.pop("x", None)
        c.pop("plan", None)
        try:
            ctx.exec_step(c)
        except Violation as v:
            return {"status": "violation", "violation": {"property": v.prop, "invariant": v.inv, "detail": v.detail,
                                                         "step": c["id"]}}
        return {"status": "ok", "nalloc": ctx._last_nalloc, "ncb": ctx._last_ncb_all, "out": ctx._last_outcome}

    if job.get("mode") == "lines":
        return _run_lines(job, ctx, prog, steps, idx, tstep)
    tw = _fork_run(twin)
    if tw.get("status") == "violation":  # the step violates an invariant even without any fault
        p = copy.deepcopy(prog)
        p["mode"] = "explicit"
        p["steps"] = steps[:idx + 1]
        return {"status": "violation", "violation": tw["violation"], "program": p, "phase": "twin"}
    if tw.get("status") != "ok":
        return {"status": "harness_error", "error": "twin failed: %r" % (tw, )}
    N = tw["nalloc"]
    ks = list(range(N)) if N <= cap else sorted(set(range(0, N, max(1, N // cap))))
    summary = {"status": "ok", "nalloc": N, "enumerated": 0, "raised": 0, "absorbed": 0, "env_crash": 0,
               "violations": [], "inside_rng_section": 0, "fn": tstep.get("fn") or "make:" + tstep.get("recipe", {}).get("k", "")}
    twin_rec = {"out": tw["out"], "nalloc": N, "ncb": tw["ncb"], "pbar_updates": 0, "rng_sections": []}

    for k in ks:
        def variant(k=k):
            c = copy.deepcopy(tstep)
            c["x"] = {"alloc": {"k": k, "minb": minb}}
            c["_twin"] = twin_rec
            try:
                ctx.exec_step(c)
                for st in steps[idx + 1:]:
                    ctx.exec_step(st)
            except Violation as v:
                p = copy.deepcopy(prog)
                p["mode"] = "explicit"
                c.pop("_twin", None)
                p["steps"] = steps[:idx] + [c] + steps[idx + 1:]
                return {"status": "violation", "k": k, "program": p,
                        "violation": {"property": v.prop, "invariant": v.inv, "detail": v.detail,
                                      "step": ctx.cur.sid if ctx.cur is not None else None}}
            except HarnessBound as b:
                return {"status": "bound", "error": str(b)}
            return {"status": "ok", "fired": dict(ctx.fired), "absorbed": ctx.stats.get("alloc_fail_absorbed", 0)}

        r = _fork_run(variant)
        summary["enumerated"] += 1
        if r["status"] == "env_crash":
            summary["env_crash"] += 1
        elif r["status"] == "violation":
            summary["violations"].append(r)
            if len(summary["violations"]) >= 3:
                break
        elif r["status"] == "ok":
            if r.get("absorbed"):
                summary["absorbed"] += 1
            elif r.get("fired", {}).get("alloc_fail"):
                summary["raised"] += 1
        else:
            return {"status": "harness_error", "error": "variant k=%d: %r" % (k, r)}
    if summary["violations"]:
        first = summary["violations"][0]
        return {"status": "violation", "violation": first["violation"], "program": first["program"],
                "crashenum": {k: v for k, v in summary.items() if k != "violations"},
                "n_violating_points": len(summary["violations"])}
    summary["stats"] = {"crash_points_enumerated": summary["enumerated"], "alloc_fail_absorbed": summary["absorbed"]}
    summary["fired"] = {"alloc_fail": summary["raised"] + summary["absorbed"]}
    return summary


def _run_lines(job, ctx, prog, steps, idx, tstep):
    """Crash-point enumeration at SOURCE-LINE granularity: an asynchronous interrupt (SimInterrupt, a KeyboardInterrupt) is
    delivered at the first and the last occurrence of every distinct line of cola/ the target step executes (capped, evenly thinned);
    after each one: all invariants, then the same step again without fault (must equal the twin's result), then the remaining
    steps.  Clean-up written as `except Exception:` does not run for such an interrupt -- only try/finally does."""
    cap = job.get("cap", 120)

    def twin():
        c = copy.deepcopy(tstep)
        c.pop("x", None)
        c.pop("plan", None)
        ctx._count_lines = True
        try:
            ctx.exec_step(c)
        except Violation as v:
            return {"status": "violation", "violation": {"property": v.prop, "invariant": v.inv, "detail": v.detail, "step": c["id"]}}
        n, first, last = getattr(ctx, "_last_line_points", ([0], {}, {}))
        pts = sorted(set(first.values()) | set(last.values()))
        return {"status": "ok", "nlines": n[0], "points": pts, "distinct": len(first), "nalloc": ctx._last_nalloc,
                "ncb": ctx._last_ncb_all, "out": ctx._last_outcome}

    tw = _fork_run(twin)
    if tw.get("status") == "violation":
        p = copy.deepcopy(prog)
        p["mode"] = "explicit"
        p["steps"] = steps[:idx + 1]
        return {"status": "violation", "violation": tw["violation"], "program": p, "phase": "twin"}
    if tw.get("status") != "ok":
        return {"status": "harness_error", "error": "line twin failed: %r" % (tw, )}
    pts = tw["points"]
    if len(pts) > cap:
        stp = len(pts) / float(cap)
        off = job.get("offset", 0) % max(1, int(stp))
        pts = sorted({pts[min(len(pts) - 1, int(i * stp) + off)] for i in range(cap)})
    summary = {"status": "ok", "nlines": tw["nlines"], "distinct_lines": tw["distinct"], "enumerated": 0, "raised": 0, "env_crash": 0,
               "violations": [], "fn": tstep.get("fn") or "make:" + tstep.get("recipe", {}).get("k", "")}
    twin_rec = {"out": tw["out"], "nalloc": tw["nalloc"], "ncb": tw["ncb"], "pbar_updates": 0, "rng_sections": []}
    nid = max(s["id"] for s in steps) + 1
    for e in pts:
        def variant(e=e):
            c = copy.deepcopy(tstep)
            c["x"] = {"interrupt": e}
            c["_twin"] = twin_rec
            again = copy.deepcopy(tstep)
            again.pop("x", None)
            again.pop("plan", None)
            again["id"] = nid
            if again.get("op") == "call":
                again["repeat_of"] = tstep["id"]
                again.pop("out", None)
            has_rep = "repeat_of" in tstep or any(st.get("repeat_of") == tstep["id"] for st in steps[idx + 1:])
            tail = ([again] if again.get("op") == "call" and not has_rep else []) + steps[idx + 1:]
            try:
                ctx.exec_step(c)
                for st in tail:
                    ctx.exec_step(st)
            except Violation as v:
                p = copy.deepcopy(prog)
                p["mode"] = "explicit"
                c.pop("_twin", None)
                p["steps"] = steps[:idx] + [c] + tail
                if getattr(ctx, "_interrupt_line", None):
                    v.detail["interrupted_at"] = ctx._interrupt_line
                return {"status": "violation", "e": e, "program": p,
                        "violation": {"property": v.prop, "invariant": v.inv, "detail": v.detail,
                                      "step": ctx.cur.sid if ctx.cur is not None else None}}
            except HarnessBound as b:
                return {"status": "bound", "error": str(b)}
            return {"status": "ok", "fired": dict(ctx.fired)}

        r = _fork_run(variant)
        summary["enumerated"] += 1
        if r["status"] == "env_crash":
            summary["env_crash"] += 1
        elif r["status"] == "violation":
            summary["violations"].append(r)
            if len(summary["violations"]) >= 3:
                break
        elif r["status"] == "ok":
            if r.get("fired", {}).get("interrupt"):
                summary["raised"] += 1
        elif r["status"] == "bound":
            continue
        else:
            return {"status": "harness_error", "error": "line variant e=%d: %r" % (e, r)}
    if summary["violations"]:
        first = summary["violations"][0]
        return {"status": "violation", "violation": first["violation"], "program": first["program"],
                "crashenum": {k: v for k, v in summary.items() if k != "violations"},
                "n_violating_points": len(summary["violations"])}
    summary["stats"] = {"line_crash_points_enumerated": summary["enumerated"], "line_crash_distinct_lines": summary["distinct_lines"]}
    summary["fired"] = {"interrupt": summary["raised"]}
    return summary
