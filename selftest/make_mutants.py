"""Regenerate selftest/mutants/*.patch from /repo's current tree (scripted edits -> unified diffs, -p1)."""
import difflib
import json
import os
import sys

REPO = os.environ.get("VERIF_REPO", "/repo")
OUT = os.path.join(os.path.dirname(os.path.abspath(__file__)), "mutants")

M = []


def mut(name, prop, needs, edits):
    M.append((name, prop, needs, edits))


# ------------------------------------------------------------------------------------ C17
mut("c17_a_hutch_global_randn", "C17", "any Hutchinson call: draws probes from the global generator",
    [("cola/linalg/trace/diagonal_estimation.py",
      "        z = xnp.randn(A.shape[0], bs, dtype=A.dtype, key=key, device=A.device)\n",
      "        z = np.random.randn(A.shape[0], bs).astype(A.dtype)\n")])
mut("c17_b_randn_section_no_restore", "C17", "any keyed draw: reseeds the global generator and never restores it",
    [("cola/backends/np_fns.py",
      "    z = np.random.RandomState(key).randn(*shape).astype(dtype)\n",
      "    np.random.seed(key)\n    z = np.random.randn(*shape).astype(dtype)\n")])
mut("c17_c_bracket_whole_loop", "C17",
    "power_iteration saves the global state before its loop and restores it afterwards: only visible when the "
    "user draws/reseeds inside an operator callback (the restore rewinds the user's draws)",
    [("cola/linalg/eig/power_iteration.py",
      "    xnp = A.xnp\n    key = xnp.PRNGKey(42) if key is None else key\n",
      "    xnp = A.xnp\n    import numpy as _np\n    _saved = _np.random.get_state()\n    key = xnp.PRNGKey(42) if key is None else key\n"),
     ("cola/linalg/eig/power_iteration.py",
      "    _, v, _, emax, _ = while_loop(cond, body, (i0, v, v, eig0, eigprev0))\n",
      "    _, v, _, emax, _ = while_loop(cond, body, (i0, v, v, eig0, eigprev0))\n    _np.random.set_state(_saved)\n")])
mut("c17_d_default_key_from_global", "C17", "lanczos with key=None takes its key from np.random.randint",
    [("cola/linalg/decompositions/lanczos.py",
      "        key = xnp.PRNGKey(42) if key is None else key\n        start_vector = xnp.randn(A.shape[0]",
      "        import numpy as _np\n        key = xnp.PRNGKey(int(_np.random.randint(0, 2**31))) if key is None else key\n        start_vector = xnp.randn(A.shape[0]")])
mut("c17_e_next_key_str_hash", "C17",
    "key chain built on hash(str(key)): identical within a process, differs across PYTHONHASHSEED",
    [("cola/backends/np_fns.py",
      "def next_key(key):\n    return sha_hash(key)\n",
      "def next_key(key):\n    return sha_hash(hash(str(key)) % (2**31))\n")])
mut("c17_f_power_iter_reads_global", "C17", "power_iteration with key=None derives its key from the global state (reads)",
    [("cola/linalg/eig/power_iteration.py",
      "    key = xnp.PRNGKey(42) if key is None else key\n",
      "    import numpy as _np\n    key = xnp.PRNGKey(int(_np.random.get_state()[1][0])) if key is None else key\n")])
mut("c17_g_hutch_one_more_iteration", "C17", "Hutchinson loop condition <= max_iters (one product too many)",
    [("cola/linalg/trace/diagonal_estimation.py",
      "        return (state[0] == 0) | ((state[0] < max_iters) & (err(state) > tol))\n",
      "        return (state[0] == 0) | ((state[0] <= max_iters) & (err(state) > tol))\n")])
mut("c17_h_lobpcg_global", "C17", "revert of the lobpcg fix",
    [("cola/linalg/eig/lobpcg.py",
      "    X = xnp.randn(A.shape[0], k, dtype=A.dtype, device=A.device, key=key)\n    X = np.array(X, dtype=np.float32)\n",
      "    X = np.random.normal(size=(A.shape[0], k)).astype(np.float32)\n")])
mut("c17_h2_randn_not_exception_safe", "C17",
    "revert of the randn fix: save/seed/draw/restore without try/finally; only an allocation failure INSIDE the section shows it",
    [("cola/backends/np_fns.py",
      "    z = np.random.RandomState(key).randn(*shape).astype(dtype)\n",
      "    old_state = np.random.get_state()\n    np.random.seed(key)\n    z = np.random.randn(*shape).astype(dtype)\n    np.random.set_state(old_state)\n")])
mut("c17_h3_randn_seed_outside_try", "C17",
    "try/finally whose get_state sits after the reseed... i.e. the restore restores the reseeded state when the cast fails",
    [("cola/backends/np_fns.py",
      "    z = np.random.RandomState(key).randn(*shape).astype(dtype)\n",
      "    old_state = np.random.get_state()\n    np.random.seed(key)\n    z = np.random.randn(*shape)\n    np.random.set_state(old_state) if z.size < 0 else None\n    z = z.astype(dtype)\n    np.random.set_state(old_state)\n")])
mut("c17_i_hutch_biased_scale", "C17", "Hutchinson divides by (n*bs - 1): biased estimate, same randomness",
    [("cola/linalg/trace/diagonal_estimation.py",
      "    mean = diag_sum / (n * bs)\n    return mean, infos\n",
      "    mean = diag_sum / max(n * bs - 1, 1)\n    return mean, infos\n")])
mut("c17_w_randn_section_exception_safe", "C17",
    "save / reseed / draw / restore of the GLOBAL generator with try/finally: exception-safe, bit-identical single-threaded, "
    "invisible after every call and after every crash; only something looking WHILE the draw is in flight (continuous observer, "
    "a caller thread drawing from np.random in the window) sees the reseeded generator",
    [("cola/backends/np_fns.py",
      "    z = np.random.RandomState(key).randn(*shape).astype(dtype)\n",
      "    old_state = np.random.get_state()\n    try:\n        np.random.seed(key)\n        z = np.random.randn(*shape)\n"
      "        z = z.astype(dtype)\n    finally:\n        np.random.set_state(old_state)\n")])
# ------------------------------------------------------------------------------------ C18
mut("c18_w_cg_scales_b_inplace_exception_safe", "C18",
    "run_batched_cg normalises the caller's b in place for the duration of the loop and restores it in a finally block: "
    "exception-safe, invisible after the call and after every crash; only an observer / second caller thread looking while the "
    "solve is in flight sees the scaled right-hand side",
    [("cola/linalg/inverse/cg.py",
      "    state = while_fn(cond_fun=cond, body_fun=body_fun, init_val=init_val)\n    return state[0] * mult, state[2] * mult, state[1], info\n",
      "    b_saved = xnp.copy(b)\n    b /= xnp.where(mult == 0, 1., mult)\n    try:\n"
      "        state = while_fn(cond_fun=cond, body_fun=body_fun, init_val=init_val)\n    finally:\n        b[...] = b_saved\n"
      "    return state[0] * mult, state[2] * mult, state[1], info\n")])
mut("c18_x_cg_scales_b_restores_in_except_exception", "C18",
    "run_batched_cg normalises the caller's b in place for the duration of the loop and restores it on the normal path and in an "
    "`except Exception` handler: safe against every exception a callback or an allocation can raise, NOT against an asynchronous "
    "interrupt (KeyboardInterrupt) delivered at a source line inside the loop",
    [("cola/linalg/inverse/cg.py",
      "    state = while_fn(cond_fun=cond, body_fun=body_fun, init_val=init_val)\n    return state[0] * mult, state[2] * mult, state[1], info\n",
      "    b_saved = xnp.copy(b)\n    b /= xnp.where(mult == 0, 1., mult)\n    try:\n"
      "        state = while_fn(cond_fun=cond, body_fun=body_fun, init_val=init_val)\n    except Exception:\n        b[...] = b_saved\n        raise\n"
      "    b[...] = b_saved\n"
      "    return state[0] * mult, state[2] * mult, state[1], info\n")])
mut("c18_i_cg_updates_x0_inplace", "C18", "cg accumulates into the caller's x0 (matrix right-hand sides keep the alias)",
    [("cola/linalg/inverse/cg.py", "    x1 = x0 + alpha * p0\n", "    x0 += alpha * p0\n    x1 = x0\n")])
mut("c18_j_init_lanczos_normalises_inplace", "C18", "init_lanczos normalises the caller's start block in place",
    [("cola/linalg/decompositions/lanczos.py", "    rhs = rhs / norm\n    V = xnp.update_array(V, xnp.copy(rhs.T), ..., 1)\n",
      "    rhs /= norm\n    V = xnp.update_array(V, xnp.copy(rhs.T), ..., 1)\n")])
mut("c18_k_annotation_add_aliased_set", "C18", "annotation wrapper adds to the (aliased) annotation set of the original",
    [("cola/annotations.py", "        new_obj.annotations = obj.annotations | {self}\n", "        new_obj.annotations.add(self)\n")])
mut("c18_l_dense_caches_cast", "C18", "Dense._matmat caches the promoted payload in self.A (changes dtype of the parameter)",
    [("cola/ops/operators.py",
      "        dtype = self.xnp.promote_types(self.dtype, X.dtype)\n        return self.xnp.cast(self.A, dtype) @ self.xnp.cast(X, dtype)\n\n    def _rmatmat",
      "        dtype = self.xnp.promote_types(self.dtype, X.dtype)\n        self.A = self.xnp.cast(self.A, dtype)\n        return self.A @ self.xnp.cast(X, dtype)\n\n    def _rmatmat")])
mut("c18_m_registry_shared", "C18", "AutoRegisteringPyTree drops .copy(): one attribute registry for all classes",
    [("cola/backends/backends.py", "        cls._dynamic = cls._dynamic.copy()\n", "        cls._dynamic = cls._dynamic\n")])
mut("c18_o_cg_scales_b_inplace", "C18",
    "run_batched_cg normalises b in place and rescales at the end: invisible unless the solve dies in between",
    [("cola/linalg/inverse/cg.py",
      "    b_norm = do_safe_div(b, mult, xnp=xnp)\n", "    b /= xnp.where(mult == 0, 1., mult)\n    b_norm = b\n"),
     ("cola/linalg/inverse/cg.py",
      "    return state[0] * mult, state[2] * mult, state[1], info\n",
      "    b *= xnp.where(mult == 0, 1., mult)\n    return state[0] * mult, state[2] * mult, state[1], info\n")])
mut("c18_p_kernel_writes_into_operand", "C18", "Kernel._matmat accumulates into the operand instead of a fresh buffer",
    [("cola/ops/operators.py", "        out = xnp.zeros(shape=V.shape, dtype=V.dtype, device=V.device)\n        for idx in range(self.iters1):",
      "        out = V if V.shape[0] == self.shape[0] and self.iters1 == 1 else xnp.zeros(shape=V.shape, dtype=V.dtype, device=V.device)\n        for idx in range(self.iters1):")])
mut("c18_q_lanczos_unary_state", "C18", "LanczosUnary remembers the first block it was applied to (operator changes by being used)",
    [("cola/linalg/unary/unary.py",
      "        Q, T, info = lanczos(self.A, V, **self.kwargs)  # outputs are batched\n",
      "        V = self.kwargs.setdefault('_first', V) if self.kwargs.get('_first', V).shape == V.shape else V\n"
      "        Q, T, info = lanczos(self.A, V, **{k: v for k, v in self.kwargs.items() if k != '_first'})  # outputs are batched\n")])
mut("c17_v_kron_product_of_estimates", "C17", "revert of the Kronecker fix: diag/trace of a Kronecker product multiplies the "
    "factors' Hutchinson estimates, all drawn with the same key (biased)",
    [("cola/linalg/trace/diag_trace.py", "def diag(A: Kronecker, k: int, alg: Exact):\n", "def diag(A: Kronecker, k: int, alg: Algorithm):\n"),
     ("cola/linalg/trace/diag_trace.py", "def trace(A: Kronecker, alg: Exact):\n", "def trace(A: Kronecker, alg: Algorithm):\n")])
mut("c18_r_registry_first_instance", "C18", "revert of the registry fix: first instance decides for the whole class",
    [("cola/ops/operator_base.py",
      "        if name not in dynamic or undecided:\n", "        if name not in dynamic:\n")])
mut("c18_s_sum_caches_product", "C18", "Sum remembers the last operand/product pair (stale result when re-applied to an equal-shaped array)",
    [("cola/ops/operators.py",
      "    def _matmat(self, v):\n        return sum(M @ v for M in self.Ms)\n",
      "    def _matmat(self, v):\n        c = self.__dict__.get('_last')\n        if c is not None and c[0] is v:\n            return c[1]\n"
      "        out = sum(M @ v for M in self.Ms)\n        self.__dict__['_last'] = (v, out)\n        return out\n")])
mut("c18_t_gmres_x0_inplace", "C18", "gmres adds the correction into the caller's x0 (2-d right-hand sides)",
    [("cola/linalg/inverse/gmres.py", "    soln = x0 + pred\n", "    x0 += pred\n    soln = x0\n")])
mut("c18_u_arnoldi_normalises_rhs", "C18", "init_arnoldi normalises the start block in place",
    [("cola/linalg/decompositions/arnoldi.py", "    norm = xnp.norm(rhs, axis=-2)\n    rhs = rhs / norm\n",
      "    norm = xnp.norm(rhs, axis=-2)\n    rhs /= norm\n")])


def main():
    os.makedirs(OUT, exist_ok=True)
    for f in os.listdir(OUT):
        os.unlink(os.path.join(OUT, f))
    for name, prop, needs, edits in M:
        texts = {}
        for path, old, new in edits:
            src = texts.get(path) or open(os.path.join(REPO, path)).read()
            if old not in src:
                print("MUTANT %s: pattern not found in %s" % (name, path))
                sys.exit(1)
            texts[path] = src.replace(old, new, 1)
        patch = ""
        for path, new in texts.items():
            old = open(os.path.join(REPO, path)).read()
            patch += "".join(difflib.unified_diff(old.splitlines(True), new.splitlines(True), "a/" + path, "b/" + path))
        open(os.path.join(OUT, name + ".patch"), "w").write(patch)
        json.dump({"property": prop, "needs": needs}, open(os.path.join(OUT, name + ".json"), "w"), indent=1)
    print("%d mutants written" % len(M))


if __name__ == "__main__":
    main()
