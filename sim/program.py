"""Seeded generators of simulated histories (pure Python, no cola import needed).

A program is a JSON object {property, run_seed, rng0, config, mode, steps[]}.  Everything is
drawn from ONE random.Random(run_seed); per-callback choices are derived from
sha256(run_seed, step id, callback index) at run time and materialised into the step's "x".
"""
import hashlib
import random


def derive_seed(verif_seed, prop, tier, i):
    h = hashlib.sha256(f"{verif_seed}:{prop}:{tier}:{i}".encode()).digest()
    return int.from_bytes(h[:8], "big") >> 1


KEYS = [None, 0, 1, 2, 3, 5, 42, 12345, 2**32 - 2, 2**32 - 1]
BIG_KEYS = [2**32, 2**32 + 1, 2**33 + 5, 2**64 + 3]  # fine for the hash chain (Hutchinson), not for direct draws
DTYPES = ["f8", "f8", "f8", "f4", "c16"]


def generate(prop, run_seed, tier="quick", opts=None):
    g = random.Random(run_seed)
    if prop == "C17":
        return gen_c17(g, run_seed, tier, opts or {})
    if prop == "C18":
        from .program18 import gen_c18
        return gen_c18(g, run_seed, tier, opts or {})
    raise ValueError(prop)


# ------------------------------------------------------------------------------ swarm config
def swarm(g, opts):
    faults_on = g.random() < 0.5 if "faults" not in opts else bool(opts["faults"])
    cfg = {
        "faults_on": faults_on,
        "n": g.choice([1, 2, 3, 3, 4, 4, 5, 6, 7, 8, 10, 12]) if g.random() < 0.96 else g.choice([97, 100, 103]),
        "dtype": g.choice(DTYPES),
        "probe_frac": g.choice([0.0, 0.3, 1.0]),
        "nsteps": min(30, 1 + int(g.expovariate(1 / 7.0))),
        "pbar": g.random() < 0.3,
        "repeat_p": g.choice([0.15, 0.3, 0.45]),
        "user_p": g.choice([0.1, 0.25, 0.4]),
    }
    rates = {}
    for name, choices in (("draw", [0, 0.02, 0.1, 0.3]), ("reseed", [0, 0, 0.02, 0.1]), ("setstate", [0, 0, 0.02, 0.1]),
                          ("reenter", [0, 0, 0.02, 0.1]), ("clock", [0, 0, 0.02, 0.1])):
        rates[name] = g.choice(choices)
    cfg["rates"] = rates  # user-party interleaving at callbacks: not faults, enabled in both populations
    if faults_on:
        cfg["p_raise"] = g.choice([0, 0.1, 0.3, 0.6])
        cfg["p_alloc"] = g.choice([0, 0.1, 0.3, 0.6])
        cfg["p_nonfinite"] = g.choice([0, 0, 0.1, 0.3])
        cfg["p_pbar_fail"] = g.choice([0, 0.3, 0.6])
        cfg["p_clock"] = g.choice([0, 0.1, 0.3])
        cfg["alloc_minb"] = g.choice([0, 0, 64, 1024])
        cfg["alloc_pos"] = g.choice(["uniform", "uniform", "first", "last"])
    else:
        for k in ("p_raise", "p_alloc", "p_nonfinite", "p_pbar_fail", "p_clock"):
            cfg[k] = 0
        cfg["alloc_minb"] = 0
        cfg["alloc_pos"] = "uniform"
    return cfg


def fault_plan(g, cfg, probe, pbar):
    plan = {"rates": dict(cfg["rates"])} if probe else {}
    if not cfg["faults_on"]:
        return plan
    if probe and g.random() < cfg["p_raise"]:
        plan["raise"] = {"pos": g.choice(["first", "last", "uniform", "uniform"])}
    if probe and g.random() < cfg["p_nonfinite"]:
        plan["nonfinite"] = {"pos": g.choice(["first", "uniform"])}
    if g.random() < cfg["p_alloc"]:
        plan["alloc"] = {"pos": cfg["alloc_pos"], "minb": cfg["alloc_minb"]}
    if pbar and g.random() < cfg["p_pbar_fail"]:
        plan["pbar_fail"] = {"pos": g.choice(["first", "last", "uniform"])}
    if g.random() < cfg["p_clock"]:
        plan["clock"] = [g.choice([-3600.0, -1.0, 0.0, 0.5, 86400.0]) for _ in range(g.randint(1, 3))]
    return plan


# ------------------------------------------------------------------------------ C17 operands
def c17_operand(g, cfg, idx):
    """-> (recipe, flags)"""
    n, dt = cfg["n"], cfg["dtype"]
    seed = g.randrange(1 << 30)
    kind = g.choice(["psd", "psd", "sym", "gen", "diag", "kron", "sum", "tridiag", "scaled", "blockdiag", "generic",
                     "ata", "sliced", "transpose", "kronsum", "identity", "sumgen", "singular"])
    real = dt in ("f4", "f8")
    fl = {"n": n, "dtype": dt, "psd": False, "sym": False, "real": real}
    if kind == "psd":
        r = {"k": "dense", "n": n, "dtype": dt, "seed": seed, "sym": "psd"}
        fl.update(psd=True, sym=True)
    elif kind == "sym":
        r = {"k": "dense", "n": n, "dtype": dt, "seed": seed, "sym": "sym"}
        fl.update(sym=True)
    elif kind == "gen":
        r = {"k": "dense", "n": n, "dtype": dt, "seed": seed, "sym": "gen"}
    elif kind == "generic":
        r = {"k": "generic", "n": n, "dtype": dt, "seed": seed, "sym": "psd"}
        fl.update(psd=True, sym=True)
    elif kind == "diag":
        r = {"k": "diag", "n": n, "dtype": dt if real else "f8", "seed": seed, "pos": True}
        fl.update(psd=True, sym=True, dtype=dt if real else "f8", real=True)
    elif kind == "tridiag":
        r = {"k": "tridiag", "n": max(n, 2), "dtype": dt if real else "f8", "seed": seed, "symm": True}
        fl.update(sym=True, n=max(n, 2), dtype=dt if real else "f8", real=True)
    elif kind == "kron":
        a, b = g.choice([(2, 2), (2, 3), (3, 2), (1, 4), (2, 4)])
        r = {"k": "kron", "args": [
            {"k": "ann", "name": "PSD", "of": {"k": "dense", "n": a, "dtype": dt, "seed": seed, "sym": "psd"}},
            {"k": "ann", "name": "PSD", "of": {"k": "dense", "n": b, "dtype": dt, "seed": seed + 1, "sym": "psd"}}]}
        fl.update(psd=True, sym=True, n=a * b, annotated=True)
    elif kind == "sum":
        r = {"k": "sum", "args": [
            {"k": "ann", "name": "PSD", "of": {"k": "dense", "n": n, "dtype": dt, "seed": seed, "sym": "psd"}},
            {"k": "ann", "name": "PSD", "of": {"k": "diag", "n": n, "dtype": dt if real else "f8", "seed": seed + 1}}]}
        fl.update(psd=True, sym=True, annotated=True)
    elif kind == "scaled":
        r = {"k": "smul", "c": g.choice([2.0, 0.5, 3.0]),
             "of": {"k": "ann", "name": "PSD", "of": {"k": "dense", "n": n, "dtype": dt, "seed": seed, "sym": "psd"}}}
        fl.update(psd=True, sym=True, annotated=True)
    elif kind == "singular":  # degenerate input: rank-deficient Gram matrix
        r = {"k": "dense", "n": n, "dtype": dt, "seed": seed, "sym": "psd_singular"}
        fl.update(psd=True, sym=True)
    elif kind == "ata":  # Product pattern A^T A (inferred PSD)
        inner = {"k": "dense", "n": n, "dtype": dt, "seed": seed, "sym": "gen"}
        r = {"k": "product", "args": [{"k": "H", "of": inner}, inner]}
        fl.update(psd=True, sym=True)
    elif kind == "sliced":
        inner = {"k": "ann", "name": "PSD", "of": {"k": "dense", "n": n + 2, "dtype": dt, "seed": seed, "sym": "psd"}}
        r = {"k": "getitem", "of": inner, "s0": [1, n + 1], "s1": [1, n + 1]}
        fl.update(psd=True, sym=True, annotated=True)
    elif kind == "transpose":
        r = {"k": "transpose_cls", "of": {"k": "generic", "n": n, "dtype": dt, "seed": seed, "sym": "gen"}}
    elif kind == "kronsum":
        a, b = g.choice([(2, 2), (2, 3), (1, 3)])
        r = {"k": "kronsum", "args": [
            {"k": "ann", "name": "PSD", "of": {"k": "dense", "n": a, "dtype": dt, "seed": seed, "sym": "psd"}},
            {"k": "ann", "name": "PSD", "of": {"k": "dense", "n": b, "dtype": dt, "seed": seed + 1, "sym": "psd"}}]}
        fl.update(psd=True, sym=True, n=a * b)
    elif kind == "identity":
        r = {"k": "smul", "c": 2.0, "of": {"k": "identity", "n": n, "dtype": dt}}
        fl.update(psd=True, sym=True)
    elif kind == "sumgen":  # Sum of a generic (array-less) operator and a diagonal: diag/trace recurse into factors
        r = {"k": "sum", "args": [{"k": "generic", "n": n, "dtype": dt, "seed": seed, "sym": "psd"},
                                  {"k": "diag", "n": n, "dtype": dt if real else "f8", "seed": seed + 1}]}
        fl.update(psd=True, sym=True)
    else:  # blockdiag
        a = max(1, n // 2)
        r = {"k": "blockdiag", "args": [
            {"k": "ann", "name": "PSD", "of": {"k": "dense", "n": a, "dtype": dt, "seed": seed, "sym": "psd"}},
            {"k": "ann", "name": "PSD", "of": {"k": "diag", "n": 2, "dtype": dt if real else "f8", "seed": seed + 1}}],
            "mult": g.choice([None, [1, 2], [2, 1]])}
        m = r["mult"] or [1, 1]
        fl.update(psd=True, sym=True, n=a * m[0] + 2 * m[1], annotated=True)
    probe = g.random() < cfg["probe_frac"]
    if probe:
        r = {"k": "probe", "inner": r, "pid": idx}
        fl["annotated"] = False
    fl["probe"] = probe
    if not fl.get("annotated"):
        if fl["psd"] and g.random() < 0.85:
            r = {"k": "ann", "name": "PSD", "of": r}
        elif fl["sym"] and g.random() < 0.85:
            r = {"k": "ann", "name": "SelfAdjoint", "of": r}
            fl["psd"] = False
        else:
            fl["psd"] = fl["sym"] = False  # not declared -> routines that assert on it are not offered
    return r, fl


def c17_call(g, cfg, slot, fl):
    """A randomised-routine call on operand `slot` -> step dict (without id/plan)."""
    n = fl["n"]
    A = {"slot": slot}
    key = g.choice(KEYS)
    pbar = cfg["pbar"] and g.random() < 0.7
    menu = ["hutch", "hutch", "diag_hutch", "trace_hutch", "diag_auto", "trace_auto", "arnoldi", "Arnoldi_call",
            "arnoldi_eigs", "eig_arnoldi", "power_iteration", "PowerIteration_call", "eig_power", "eig_auto1",
            "eigmax", "randomized_svd", "svd_lanczos", "slogdet_ah"]
    if fl["sym"]:
        menu += ["lanczos", "lanczos", "Lanczos_call", "lanczos_eigs", "eig_lanczos"]
        if fl["real"]:
            menu += ["lobpcg", "eig_lobpcg", "svd_lobpcg"]
    if fl["psd"]:
        menu += ["slq", "slq", "nystrom", "cg_nystrom", "adanys", "select_rank", "logdet_lh", "slogdet_lh"]
    if n >= 50:  # block-size boundary runs (bs = min(100, n)): cheap routines only, they exist for the probe-block logic
        menu = [m for m in menu if m in ("hutch", "diag_hutch", "trace_hutch", "diag_auto", "trace_auto", "lanczos",
                                         "arnoldi", "power_iteration", "nystrom", "randomized_svd", "eig_power")]
    fn = g.choice(menu)
    a = {"A": A}

    def hutch_kw(with_k=True):
        kw = {"tol": g.choice([0.03, 0.05, 0.2, 0.5, 5.0]), "max_iters": g.choice([0, 1, 1, 2, 3, 5, 8]),
              "rand": g.choice(["normal", "rademacher"]), "key": key}
        if g.random() < 0.3:
            kw["bs"] = g.choice([1, 3, 100])
        if pbar:
            kw["pbar"] = True
        return kw

    if fn in ("hutch", "diag_hutch", "trace_hutch") and g.random() < 0.1:
        key = g.choice(BIG_KEYS)
    if fn in ("hutch", "diag_hutch"):
        a.update(hutch_kw())
        a["k"] = g.choice([0, 0, 0, 1, -1, 2, -2, max(n - 1, 0), -max(n - 1, 0)])
        if abs(a["k"]) >= n:
            a["k"] = 0
    elif fn == "trace_hutch":
        a.update(hutch_kw())
    elif fn in ("diag_auto", "trace_auto"):
        a.update({"tol": g.choice([0.05, 0.2, 0.5]), "max_iters": g.choice([1, 2, 4]), "key": key})
        if fn == "diag_auto":
            a["k"] = g.choice([0, 0, 1, -1]) if n > 1 else 0
    elif fn == "slq":
        a.update({"fun": g.choice(["log", "exp", "id", "sq"]), "max_iters": g.choice([1, 2, 5, 100]),
                  "tol": g.choice([1e-5, 1e-2]), "vtol": g.choice([0.5, 0.3, 1.0]), "key": key})
        if pbar:
            a["pbar"] = True
    elif fn in ("lanczos", "Lanczos_call", "lanczos_eigs", "arnoldi", "Arnoldi_call", "arnoldi_eigs"):
        a.update({"max_iters": g.choice([1, 2, 3, n, n + 3, 100]), "tol": g.choice([1e-7, 1e-3]), "key": key})
        if pbar:
            a["pbar"] = True
        if fn.startswith("arnoldi") and g.random() < 0.15:
            a["use_householder"] = True
            a["max_iters"] = min(a["max_iters"], n) or 1
    elif fn in ("eig_lanczos", "eig_arnoldi", "svd_lanczos"):
        a.update({"k": g.choice([1, 2, n]), "which": g.choice(["LM", "SM"]), "max_iters": g.choice([2, n, 100]),
                  "key": key})
    elif fn in ("power_iteration", "eig_power", "PowerIteration_call"):
        a.update({"tol": g.choice([1e-6, 1e-2]), "max_iter": g.choice([1, 3, 20]), "key": key})
        if pbar:
            a["pbar"] = True
    elif fn in ("eig_auto1", "eigmax"):
        a.update({"tol": g.choice([1e-6, 1e-2]), "max_iter": g.choice([1, 3, 20]), "key": key})
    elif fn == "nystrom":
        a.update({"rank": g.choice([1, 2, max(1, n // 2), n]), "key": key})
    elif fn == "cg_nystrom":
        a.update({"rank": g.choice([1, 2, max(1, n // 2)]), "key": key, "max_iters": g.choice([1, 3, 50]),
                  "tol": 1e-6, "b": {"arr": {"shape": [n], "dtype": fl["dtype"], "seed": g.randrange(1 << 20)}}})
        if pbar:
            a["pbar"] = True
    elif fn == "adanys":
        a.update({"rank": g.choice([1, 2]), "bounds": [0.1, 0.5, 2.0]})
    elif fn == "select_rank":
        a.update({"rank_init": 1, "rank_max": g.choice([1, 2, 4]), "tol": g.choice([1e-3, 1.0])})
    elif fn == "randomized_svd":
        a.update({"rank": g.choice([1, 2, n])})
    elif fn in ("lobpcg", ):
        a.update({"max_iters": g.choice([1, 2, 100])})
        if key is not None or g.random() < 0.5:
            a["key"] = key
    elif fn in ("eig_lobpcg", "svd_lobpcg"):
        a.update({"k": g.choice([1, 2]), "which": g.choice(["LM", "SM"]), "max_iters": g.choice([2, 100])})
        if key is not None or g.random() < 0.5:
            a["key"] = key
    elif fn in ("logdet_lh", "slogdet_lh", "slogdet_ah"):
        hk = {"tol": g.choice([0.2, 0.5]), "max_iters": g.choice([1, 2]), "key": key,
              "rand": g.choice(["normal", "rademacher"])}
        lk = {"max_iters": g.choice([2, n, 20]), "key": g.choice(KEYS)}
        a.update({"lkw" if fn != "slogdet_ah" else "akw": lk, "hkw": hk})
    return {"op": "call", "fn": fn, "args": a}, pbar


ALG_OF = {"diag_hutch": "Hutch", "trace_hutch": "Hutch", "diag_auto": "Auto", "trace_auto": "Auto",
          "eig_lanczos": "Lanczos", "eig_arnoldi": "Arnoldi", "eig_power": "PowerIteration", "eig_auto1": "Auto",
          "eigmax": "Auto", "eig_lobpcg": "LOBPCG"}


def strip(step):
    return {k: v for k, v in step.items() if k in ("fn", "args")}


def gen_c17(g, run_seed, tier, opts):
    cfg = swarm(g, opts)
    if cfg["n"] >= 50:
        cfg["nsteps"] = min(cfg["nsteps"], 8)
    steps = []
    sid = [0]

    def add(st):
        st["id"] = sid[0]
        sid[0] += 1
        steps.append(st)
        return st

    nops = g.choice([1, 1, 2, 3])
    operands = []
    for i in range(nops):
        r, fl = c17_operand(g, cfg, i)
        slot = "A%d" % i
        add({"op": "make", "slot": slot, "recipe": r})
        operands.append((slot, fl))
    if g.random() < 0.25:  # a second operator built from the very same recipe: equal value, other object
        slot0, fl0 = g.choice(operands)
        r0 = [s for s in steps if s.get("slot") == slot0][0]["recipe"]
        add({"op": "make", "slot": slot0 + "b", "recipe": r0})
        operands.append((slot0 + "b", fl0))
    calls = []
    algobjs = {}
    for _ in range(cfg["nsteps"]):
        u = g.random()
        if u < cfg["user_p"]:
            kind = g.choice(["draw", "draw", "draw", "draw", "reseed", "getstate", "setstate", "loglevel", "seterr", "warnfilter"])
            if kind == "draw":
                act = ["draw", g.choice(["rand", "randn", "normal", "randint", "permutation", "shuffle", "random"]),
                       g.randint(1, 6)]
            elif kind == "reseed":
                act = ["reseed", g.randrange(2**32)]
            elif kind == "loglevel":
                act = ["loglevel", g.choice(["DEBUG", "INFO", "WARNING", "ERROR"])]
            elif kind == "seterr":
                act = ["seterr", g.choice(["raise", "warn", "ignore"])]
            elif kind == "warnfilter":
                act = ["warnfilter", g.choice(["error", "ignore", "default", "always"])]
            else:
                act = [kind]
            add({"op": "user", "act": act, "slot": "s%d" % g.randint(0, 1)})
            continue
        if calls and u < cfg["user_p"] + cfg["repeat_p"]:
            base = g.choice(calls)
            st = {"op": "call", "fn": base["fn"], "args": dict(base["args"]), "repeat_of": base["id"]}
            slot = base["args"]["A"]["slot"]
            twin = slot[:-1] if slot.endswith("b") else slot + "b"
            if twin in dict(operands) and g.random() < 0.4:
                slot = twin  # same call on the equal-valued twin operator
                st["args"]["A"] = {"slot": twin}
        else:
            slot, fl = g.choice(operands)
            st, _ = c17_call(g, cfg, slot, fl)
        fl = dict(operands)[slot]
        if "repeat_of" not in st and st["fn"] in ALG_OF and g.random() < 0.3:
            # the user builds the algorithm object once and reuses it (also on other operands and in repeats)
            cls = ALG_OF[st["fn"]]
            kw = {k: v for k, v in st["args"].items() if k not in ("A", "k", "which", "b")}
            have = [n for n, (c, w) in algobjs.items() if c == cls]
            if have and g.random() < 0.5:
                name = g.choice(have)
            else:
                name = "g%d" % (len(algobjs) + 1)
                algobjs[name] = (cls, kw)
                add({"op": "mkalg", "name": name, "cls": cls, "kw": kw})
            st["args"] = dict({k: v for k, v in st["args"].items() if k in ("A", "k", "which", "b")},
                              alg={"algobj": name})
        pbar = bool(st["args"].get("pbar"))
        plan = fault_plan(g, cfg, fl["probe"] or st["fn"] == "slq", pbar)
        if plan:
            st["plan"] = plan
        if fl["probe"] and cfg["rates"].get("reenter", 0) > 0:
            menu = [strip(st)]
            oslot, ofl = g.choice(operands)
            other, _ = c17_call(g, cfg, oslot, ofl)
            other["args"].pop("pbar", None)
            menu.append(strip(other))
            if calls:
                menu.append(strip(g.choice(calls)))
            st["menu"] = menu
        add(st)
        calls.append(st)
    return {"property": "C17", "run_seed": run_seed, "rng0": g.randrange(2**32), "config": cfg, "mode": "seed",
            "tier": tier, "steps": steps}


def panel_configs(verif_seed, tier="quick"):
    import random
    g = random.Random("panel:%d" % verif_seed)
    out = []
    for n in (1, 3, 5):
        out.append({"exact": True, "recipe": {"k": "diag", "n": n, "seed": g.randrange(1 << 20), "pos": False},
                    "k": 0, "rand": "rademacher", "max_iters": g.choice([1, 3])})
    # complex dtypes: keyed probes are real normals cast to complex, so E[z z^T] = I must still hold
    out.append({"exact": True, "recipe": {"k": "diag", "n": 4, "dtype": "c16", "seed": g.randrange(1 << 20), "pos": False},
                "k": 0, "rand": "rademacher", "max_iters": 1})
    for rand in ("normal", "rademacher"):
        for dt in ("c16", "c8") if rand == "normal" else ("c16", ):
            n = g.choice([3, 4, 6])
            out.append({"recipe": {"k": "generic", "n": n, "dtype": dt, "seed": g.randrange(1 << 20), "sym": "gen"},
                        "k": g.choice([0, 1, -1]), "rand": rand, "max_iters": 1})
    out.append({"recipe": {"k": "generic", "n": 5, "dtype": "f4", "seed": g.randrange(1 << 20), "sym": "gen"},
                "k": g.choice([0, 2, -2]), "rand": "normal", "max_iters": 1})
    kinds = [lambda n, s: {"k": "dense", "n": n, "seed": s, "sym": "gen"},
             lambda n, s: {"k": "dense", "n": n, "seed": s, "sym": "psd"},
             lambda n, s: {"k": "tridiag", "n": n, "seed": s, "symm": False},
             lambda n, s: {"k": "generic", "n": n, "seed": s, "sym": "gen"},
             lambda n, s: {"k": "sum", "args": [{"k": "dense", "n": n, "seed": s, "sym": "gen"},
                                                {"k": "diag", "n": n, "seed": s + 1}]}]
    for i, mk in enumerate(kinds):
        for rand in ("normal", "rademacher"):
            for mi in ((1, 1, g.choice([2, 4])) if rand == "normal" else (1, 1)):
                n = g.choice([2, 3, 4, 6]) if mi == 1 else g.choice([4, 6, 8])
                k = g.choice([0, 0, 1, -1, 2, -2, n - 1, -(n - 1)])
                if abs(k) >= n:
                    k = 0
                out.append({"recipe": mk(n, g.randrange(1 << 20)), "k": k, "rand": rand, "max_iters": mi})
    # more than one hundred rows (the estimator's block size is min(100, n): probes are n x 100, not square), offsets on
    # both sides, offsets next to the corner
    for n, k in ((130, 0), (130, 3), (130, -3), (101, 100), (101, -100), (7, 6), (7, -6)):
        out.append({"recipe": {"k": "generic", "n": n, "dtype": "f8", "seed": g.randrange(1 << 20), "sym": "gen"},
                    "k": k, "rand": g.choice(["normal", "rademacher"]), "max_iters": g.choice([0, 1])})
    # operators that DECLARE structure (SelfAdjoint / PSD), real symmetric and complex Hermitian, off-diagonals on both sides:
    # an estimator may exploit the declaration, and must then still estimate the requested (complex) off-diagonal
    for dt, ann in (("c16", "SelfAdjoint"), ("c16", "PSD"), ("f8", "SelfAdjoint"), ("c8", "PSD")):
        for rand in ("normal", "rademacher"):
            n = g.choice([4, 5, 6])
            out.append({"recipe": {"k": "ann", "name": ann, "of": {"k": "generic", "n": n, "dtype": dt, "seed": g.randrange(1 << 20),
                                                                   "sym": "psd"}},
                        "k": g.choice([1, -1, 2, -2]), "rand": rand, "max_iters": 1})
    # operators whose DECLARED dtype is narrower than their action: Sum takes the dtype of its first part, so real + complex
    # is declared real while it acts (and densifies) as a complex matrix -- directly, and under wrappers without a diag rule
    for rand in ("normal", "rademacher"):
        mixed = {"k": "sum", "args": [{"k": "generic", "n": 4, "dtype": "f8", "seed": g.randrange(1 << 20), "sym": "gen"},
                                      {"k": "generic", "n": 4, "dtype": "c16", "seed": g.randrange(1 << 20), "sym": "gen"}]}
        out.append({"recipe": mixed, "k": g.choice([0, 1, -1]), "rand": rand, "max_iters": 1})
        out.append({"recipe": {"k": "transpose_cls", "of": mixed}, "k": g.choice([0, 1]), "rand": rand, "max_iters": 1})
        out.append({"recipe": {"k": "sum", "args": [{"k": "generic", "n": 4, "dtype": "f4", "seed": g.randrange(1 << 20), "sym": "gen"},
                                                    {"k": "generic", "n": 4, "dtype": "f8", "seed": g.randrange(1 << 20), "sym": "gen"}]},
                    "k": 0, "rand": rand, "max_iters": 1})
    out.append({"exact": True, "recipe": {"k": "sum", "args": [{"k": "diag", "n": 4, "dtype": "f8", "seed": g.randrange(1 << 20), "pos": False},
                                                              {"k": "diag", "n": 4, "dtype": "c16", "seed": g.randrange(1 << 20),
                                                               "pos": False}]},
                "k": 0, "rand": "rademacher", "max_iters": 1})
    out.append({"exact": True, "recipe": {"k": "transpose_cls", "of": {"k": "sum", "args": [
        {"k": "generic", "n": 3, "dtype": "f8", "seed": g.randrange(1 << 20), "sym": "diagm"},
        {"k": "generic", "n": 3, "dtype": "c16", "seed": g.randrange(1 << 20), "sym": "diagm"}]}},
                "k": 0, "rand": "rademacher", "max_iters": 1})
    # a declared-PSD operator whose small diagonal entries are buried in the noise of their rows: single estimates of them are
    # often negative -- the mean over keys must still be the true (tiny, positive) value (no clamping, no 'repair')
    for rand in ("normal", "rademacher"):
        bad = {"k": "ann", "name": "PSD", "of": {"k": "generic", "n": g.choice([6, 8, 10]), "dtype": "f8", "seed": 0, "sym": "psd_badscale"}}
        out.append({"recipe": bad, "k": 0, "rand": rand, "max_iters": 1})
        out.append({"via": "dispatch", "what": "diag", "name": "psd-badscale", "recipe": bad, "k": 0, "rand": rand, "max_iters": 1})
    out.append({"via": "dispatch", "what": "trace", "name": "psd-badscale", "recipe": {"k": "ann", "name": "PSD", "of": {
        "k": "generic", "n": 8, "dtype": "f8", "seed": 0, "sym": "psd_badscale"}}, "k": 0, "rand": "normal", "max_iters": 1})
    # probe blocks of more than 2^20 entries (n x 100 with n > 10485), in every precision: exactness with Rademacher probes
    # on a Diagonal operator (no statistics involved), and unbiasedness with normal probes (fewer keys, wider threshold)
    for dt in ("f4", "f8", "c8"):
        out.append({"exact": True, "keys": 2, "recipe": {"k": "diag", "n": 10500 + g.randrange(200), "dtype": dt,
                                                          "seed": g.randrange(1 << 20), "pos": False},
                    "k": 0, "rand": "rademacher", "max_iters": 1})
    out.append({"recipe": {"k": "diag", "n": 10500 + g.randrange(200), "dtype": "f4", "seed": g.randrange(1 << 20), "pos": False},
                "k": 0, "rand": "normal", "max_iters": 1, "K": 48, "T": 10.0})
    return out + panel_configs_structured(verif_seed, tier)


def panel_configs_structured(verif_seed, tier="quick"):
    """The estimator as reached through `cola.linalg.diag / trace (A, alg=Hutch(key=...))` on structured operators: the
    dispatch rules split the request over the parts (sum, blocks and their multiplicities, Kronecker factors, ...) and
    recombine the parts' estimates; the recombination must still be unbiased for the requested diagonal / trace and exact
    for diagonal operators with Rademacher probes.  One iteration per call (max_iters=1): no optional stopping."""
    import random
    g = random.Random("panel-structured:%d" % verif_seed)

    def G(n, sym="gen"):
        return {"k": "generic", "n": n, "dtype": "f8", "seed": g.randrange(1 << 20), "sym": sym}

    def D(n):
        return {"k": "diag", "n": n, "seed": g.randrange(1 << 20), "pos": False}

    def structured(dm):
        S = (lambda n: G(n, "diagm")) if dm else G
        out = [("sum", {"k": "sum", "args": [S(4), S(4)]}),
               ("blockdiag", {"k": "blockdiag", "args": [S(3), S(2)]}),
               ("blockdiag-mult", {"k": "blockdiag", "args": [S(3), S(2)], "mult": [2, 3]}),
               ("blockdiag-one-mult", {"k": "blockdiag", "args": [S(3)], "mult": [3]}),
               ("kron-equal", {"k": "kron", "args": [S(3), S(3)]}),
               ("kron-unequal", {"k": "kron", "args": [S(2), S(3)]}),
               ("kron-three", {"k": "kron", "args": [S(2), S(2), S(2)]}),
               ("kron-same-factor", None),
               ("kronsum", {"k": "kronsum", "args": [S(3), S(3)]}),
               ("smul", {"k": "smul", "c": 2.5, "of": S(4)}),
               ("neg", {"k": "neg", "of": S(4)}),
               ("product", {"k": "product", "args": [S(3), S(3)]}),
               ("transpose", {"k": "transpose_cls", "of": S(4)}),
               ("sum-of-kron-and-diag", {"k": "sum", "args": [{"k": "kron", "args": [S(2), S(2)]}, D(4)]}),
               ("blockdiag-of-kron", {"k": "blockdiag", "args": [{"k": "kron", "args": [S(2), S(2)]}, S(2)], "mult": [2, 1]}),
               ("kron-of-dense-and-generic", {"k": "kron", "args": [{"k": "dense", "n": 3, "seed": g.randrange(1 << 20),
                                                                     "sym": "diagm" if dm else "gen"}, S(3)]})]
        f = S(3)
        out[7] = ("kron-same-factor", {"k": "kron", "args": [f, f]})
        return out

    out = []
    for name, rec in structured(False):
        for rand in ("normal", "rademacher"):
            out.append({"via": "dispatch", "what": "diag", "name": name, "recipe": rec, "k": 0, "rand": rand, "max_iters": 1})
        out.append({"via": "dispatch", "what": "trace", "name": name, "recipe": rec, "k": 0, "rand": g.choice(["normal", "rademacher"]),
                    "max_iters": 1})
    # several iterations per call (a tolerance that is never met, normal probes: relative stderr < 0.002 after <= 3 small blocks
    # does not happen, so every call runs exactly max_iters blocks and no optional stopping is involved): a rule that gives its
    # parts keys from the SAME chain the estimator itself walks makes block j+1 of one part the block j of the next -- invisible
    # with one block per call
    for name, rec in structured(False):
        for mi in (2, 3):
            out.append({"via": "dispatch", "what": "diag" if mi == 3 else "trace", "name": name + "/iters=%d" % mi, "recipe": rec, "k": 0,
                        "rand": "normal", "max_iters": mi})
        if name in ("kron-equal", "kron-three", "kron-same-factor", "sum-of-kron-and-diag", "kron-unequal"):  # more blocks per call (a larger shared fraction) and more keys (statistical power)
            for what in ("diag", "trace"):
                out.append({"via": "dispatch", "what": what, "name": name + "/iters=6", "recipe": rec, "k": 0, "rand": "normal",
                            "max_iters": 6, "K": 4096})
    # the same through Auto when it picks the stochastic branch by itself (tol >= 1 / sqrt(10 n^2) of the operator -- or of a PART,
    # if a rule hands Auto to the parts): 8 x 8 parts, tol 0.04, four blocks per call
    for name, rec in [("kron-equal-8", {"k": "kron", "args": [G(8), G(8)]}),
                      ("kron-products-8", {"k": "kron", "args": [{"k": "product", "args": [G(8), G(8)]}, {"k": "product", "args": [G(8), G(8)]}]}),
]:  # (no BlockDiag / Sum here: their rules DO hand Auto to the 8 x 8 parts, where tol 0.04 sometimes stops early)
        if tier != "thorough" and name != "kron-products-8":
            continue
        for what in ("diag", "trace") if tier == "thorough" else ("diag", ):
            out.append({"via": "dispatch", "alg": "Auto", "what": what, "name": name + "/auto", "recipe": rec, "k": 0, "rand": "normal",
                        "max_iters": 4, "tol": 0.04, "K": 16384 if tier == "thorough" else 8192})
    # off-diagonals through the rules that accept them (sums, scalar multiples incl. complex scalars, negation, products,
    # transposes and adjoints -- where the sign of the offset flips): a rule that refuses an offset is skipped
    def Gc(n):
        return {"k": "generic", "n": n, "dtype": "c16", "seed": g.randrange(1 << 20), "sym": "gen"}

    for name, rec in [("sum", {"k": "sum", "args": [G(4), G(4)]}), ("smul", {"k": "smul", "c": -1.5, "of": G(4)}),
                      ("smul-complex", {"k": "smul", "c": [0.5, 1.0], "of": Gc(4)}), ("neg", {"k": "neg", "of": G(4)}),
                      ("product", {"k": "product", "args": [G(4), G(4)]}), ("transpose", {"k": "transpose_cls", "of": G(4)}),
                      ("adjoint-complex", {"k": "adjoint_cls", "of": Gc(4)}), ("T-complex", {"k": "T", "of": Gc(4)}),
                      ("H-of-sum-complex", {"k": "H", "of": {"k": "sum", "args": [Gc(3), Gc(3)]}}),
                      ("sum-dense-generic", {"k": "sum", "args": [{"k": "dense", "n": 4, "seed": g.randrange(1 << 20), "sym": "gen"}, G(4)]}),
                      # scaling factors (Diagonal / ScalarMul) in first / last / middle position of a product, alone and nested:
                      # where a rule pulls them out the index window depends on the side and on the sign of k
                      ("product-diag-last", {"k": "product", "args": [G(4), D(4)]}),
                      ("product-diag-first", {"k": "product", "args": [D(4), G(4)]}),
                      ("product-3-diag-last", {"k": "product", "args": [G(4), G(4), D(4)]}),
                      ("product-diag-both", {"k": "product", "args": [D(4), G(4), D(4)]}),
                      ("product-dense-diag", {"k": "product", "args": [{"k": "dense", "n": 4, "seed": g.randrange(1 << 20), "sym": "gen"}, D(4)]}),
                      ("product-scalar-first", {"k": "product", "args": [{"k": "scalar", "c": 2.5, "n": 4}, G(4)]}),
                      ("product-scalar-last", {"k": "product", "args": [G(4), {"k": "scalar", "c": -1.5, "n": 4}]}),
                      ("sum-with-diag", {"k": "sum", "args": [G(4), D(4)]}),
                      ("T-of-product-diag-last", {"k": "T", "of": {"k": "product", "args": [G(4), D(4)]}}),
                      ("sliced-generic", {"k": "getitem", "of": G(5), "s0": [0, 4], "s1": [1, 5]}),
                      ("kronsum", {"k": "kronsum", "args": [G(2), G(2)]}),
                      ("blockdiag", {"k": "blockdiag", "args": [G(2), G(2)]})]:
        for kk in (1, -1, 2):
            out.append({"via": "dispatch", "what": "diag", "name": name + "/k=%d" % kk, "recipe": rec, "k": kk,
                        "rand": g.choice(["normal", "rademacher"]), "max_iters": 1})
    for name, rec in structured(True):  # diagonal operators: exact with Rademacher probes
        out.append({"via": "dispatch", "what": "diag", "exact": True, "name": name, "recipe": rec, "k": 0, "rand": "rademacher",
                    "max_iters": g.choice([1, 2])})
        out.append({"via": "dispatch", "what": "trace", "exact": True, "name": name, "recipe": rec, "k": 0, "rand": "rademacher",
                    "max_iters": 1})
    return out


# ------------------------------------------------------------------------------------------
# crash-point enumeration programs (C17): one keyed routine on a small operator, plain and
# Probe-wrapped; the target call is followed by a user draw and a fault-free repeat.
C17_ENUM = [
    ("hutch", {"tol": 0.05, "max_iters": 3, "key": 3, "k": 0}),
    ("hutch", {"tol": 0.05, "max_iters": 2, "key": None, "k": 1, "rand": "rademacher", "pbar": True}),
    ("diag_hutch", {"tol": 0.05, "max_iters": 2, "key": 5, "k": -1}),
    ("trace_hutch", {"tol": 0.2, "max_iters": 2, "key": 1}),
    ("trace_auto", {"tol": 0.2, "max_iters": 2, "key": 2}),
    ("slq", {"fun": "log", "max_iters": 3, "vtol": 0.5, "key": 7}),
    ("lanczos", {"max_iters": 3, "key": 1}),
    ("Lanczos_call", {"max_iters": 2, "key": None}),
    ("eig_lanczos", {"k": 2, "which": "LM", "max_iters": 4, "key": 2}),
    ("svd_lanczos", {"k": 2, "which": "LM", "max_iters": 4, "key": 2}),
    ("arnoldi", {"max_iters": 3, "key": 3}),
    ("eig_arnoldi", {"k": 1, "which": "LM", "max_iters": 4, "key": 0}),
    ("power_iteration", {"max_iter": 3, "key": 5}),
    ("eig_auto1", {"max_iter": 3, "key": 42}),
    ("nystrom", {"rank": 2, "key": 1}),
    ("cg_nystrom", {"rank": 2, "key": 2, "max_iters": 3, "b": {"arr": {"shape": [4], "dtype": "f8", "seed": 9}}}),
    ("randomized_svd", {"rank": 2}),
    ("select_rank", {"rank_init": 1, "rank_max": 2, "tol": 1.0}),
    ("lobpcg", {"max_iters": 2, "key": 4}),
    ("eig_lobpcg", {"k": 1, "which": "LM", "max_iters": 2, "key": 1}),
    ("logdet_lh", {"lkw": {"max_iters": 3, "key": 1}, "hkw": {"tol": 0.5, "max_iters": 1, "key": 2}}),
    ("slogdet_ah", {"akw": {"max_iters": 3, "key": 1}, "hkw": {"tol": 0.5, "max_iters": 1, "key": 2}}),
]


def crash_programs_c17(verif_seed):
    out = []
    for i, (fn, kw) in enumerate(C17_ENUM):
        for probe in (False, True):
            inner = {"k": "dense", "n": 4, "dtype": "f8", "seed": 100 + i, "sym": "psd"}
            r = {"k": "ann", "name": "PSD", "of": {"k": "probe", "inner": inner, "pid": 0} if probe else inner}
            call = {"op": "call", "fn": fn, "args": dict({"A": {"slot": "A0"}}, **kw)}
            steps = [{"op": "make", "slot": "A0", "recipe": r},
                     {"op": "user", "act": ["reseed", 1000 + i], "slot": "s0"},
                     dict(call),
                     {"op": "user", "act": ["draw", "randn", 3], "slot": "s0"},
                     dict(call, repeat_of=2),
                     {"op": "user", "act": ["draw", "rand", 2], "slot": "s0"}]
            for j, s in enumerate(steps):
                s["id"] = j
            out.append({"program": {"property": "C17", "run_seed": 7000 + i, "rng0": 5, "config": {}, "mode": "explicit",
                                    "steps": steps}, "target": 2, "name": "%s/%s" % (fn, "probe" if probe else "plain")})
    return out


# ------------------------------------------------------------------------------------------
# C17 dispatch-path sweep: every randomised entry point that takes an algorithm object x every operator
# kind with its own structural rule, with ONE caller-owned algorithm object reused across operands:
#   c1 = R(G, alg)   c2 = R(A_kind, alg)   repeat c1   repeat c2        (exhaustive over the two lists)
def _p(r):
    return {"k": "ann", "name": "PSD", "of": r}


def path_kinds(n=4):
    d = lambda s, sym="psd", m=n: {"k": "dense", "n": m, "dtype": "f8", "seed": s, "sym": sym}  # noqa: E731
    gen = lambda s, sym="psd", m=n: {"k": "generic", "n": m, "dtype": "f8", "seed": s, "sym": sym}  # noqa: E731
    return {
        "dense": _p(d(1)), "generic": _p(gen(2)),
        "kron": {"k": "kron", "args": [_p(d(3, m=2)), _p(gen(4, m=2))]},
        "kron_dense": {"k": "kron", "args": [_p(d(3, m=2)), _p(d(4, m=2))]},
        "kronsum": {"k": "kronsum", "args": [_p(gen(5, m=2)), _p(d(6, m=2))]},
        "sum": {"k": "sum", "args": [_p(d(7)), _p({"k": "diag", "n": n, "seed": 8})]},
        "sumgen": {"k": "sum", "args": [_p(gen(9)), _p({"k": "diag", "n": n, "seed": 10})]},
        "blockdiag": {"k": "blockdiag", "args": [_p(gen(11, m=1)), _p(gen(12, m=1))], "mult": [2, 2]},
        "ata": {"k": "product", "args": [{"k": "H", "of": gen(13, "gen")}, gen(13, "gen")]},
        "sliced": {"k": "getitem", "of": _p(gen(14, m=n + 2)), "s0": [1, n + 1], "s1": [1, n + 1]},
        "transpose": _p({"k": "transpose_cls", "of": gen(15)}),
        "scaled": {"k": "smul", "c": 2.0, "of": _p(gen(16))},
        "scaled_identity": {"k": "smul", "c": 2.0, "of": {"k": "identity", "n": n, "dtype": "f8"}},
        "diag": _p({"k": "diag", "n": n, "seed": 17}),
        "tridiag": {"k": "ann", "name": "SelfAdjoint", "of": {"k": "tridiag", "n": n, "seed": 18, "symm": True}},
        "probe": _p({"k": "probe", "inner": gen(19), "pid": 0}),
        "complex": {"k": "ann", "name": "PSD", "of": {"k": "generic", "n": n, "dtype": "c16", "seed": 20, "sym": "psd"}},
        "float32": {"k": "ann", "name": "PSD", "of": {"k": "generic", "n": n, "dtype": "f4", "seed": 21, "sym": "psd"}},
        "zero": {"k": "ann", "name": "PSD", "of": {"k": "generic", "n": n, "dtype": "f8", "seed": 22, "sym": "zero"}},
        "singular": {"k": "ann", "name": "PSD", "of": {"k": "generic", "n": n, "dtype": "f8", "seed": 23, "sym": "psd_singular"}},
    }


# alg class -> (keyword arguments of the object, canonical randomised routine R0, entry points that accept the object)
#   entry point = (call name, name of the argument that receives the object, further args, is_randomised)
PATH_CLASSES = {
    "Hutch": ({"tol": 0.2, "max_iters": 2}, ("trace_hutch", "alg", {}), [
        ("diag_hutch", "alg", {"k": 0}, True), ("diag_hutch", "alg", {"k": -1}, True), ("trace_hutch", "alg", {}, True),
        ("logdet_lh", "halg", {"lkw": {"max_iters": 3, "key": 1}}, True),
        ("slogdet_lh", "halg", {"lkw": {"max_iters": 3, "key": 1}}, True),
        ("slogdet_ah", "halg", {"akw": {"max_iters": 3, "key": 1}}, True)]),
    "HutchRademacher": ({"tol": 0.2, "max_iters": 2, "rand": "rademacher"}, ("trace_hutch", "alg", {}), [
        ("diag_hutch", "alg", {"k": 1}, True), ("trace_hutch", "alg", {}, True)]),
    "Auto": ({"tol": 0.2}, ("trace_auto", "alg", {}), [
        ("diag_auto", "alg", {"k": 0}, True), ("trace_auto", "alg", {}, True), ("eig_auto1", "alg", {}, True),
        ("eigmax", "alg", {}, True),
        ("inv", "alg", {}, False), ("logdet", "alg", {}, False), ("unary", "alg", {"f": "sqrt"}, False),
        ("eig", "alg", {"k": 1, "which": "LM"}, False), ("svd", "alg", {"k": 1, "which": "LM"}, False)]),
    # an Auto that carries an iteration cap and a tolerance (options that only SOME of the algorithms it may turn into accept)
    "AutoCapped": ({"tol": 0.2, "max_iters": 3}, ("trace_auto", "alg", {}), [
        ("diag_auto", "alg", {"k": 0}, True), ("trace_auto", "alg", {}, True), ("eig_auto1", "alg", {}, True),
        ("eigmax", "alg", {}, True), ("inv", "alg", {}, False), ("logdet", "alg", {}, False),
        ("eig", "alg", {"k": 1, "which": "LM"}, False), ("eig", "alg", {"k": 2, "which": "LM"}, False)]),
    "Lanczos": ({"max_iters": 3}, ("eig_lanczos", "alg", {"k": 1, "which": "LM"}), [
        ("eig_lanczos", "alg", {"k": 1, "which": "LM"}, True), ("svd_lanczos", "alg", {"k": 1, "which": "LM"}, True),
        ("alg_call", "alg", {}, True), ("logdet_lh", "lalg", {"hkw": {"tol": 0.5, "max_iters": 1, "key": 2}}, True),
        ("unary", "alg", {"f": "sqrt"}, False), ("unary", "alg", {"f": "exp"}, False), ("unary", "alg", {"f": "log"}, False),
        ("unary", "alg", {"f": "pow-1"}, False), ("unary", "alg", {"f": "pow0.5"}, False),
        ("unary_apply", "alg", {"f": "isqrt", "x": {"arr": {"shape": [4], "dtype": "f8", "seed": 3}}}, False)]),
    "Arnoldi": ({"max_iters": 3}, ("eig_arnoldi", "alg", {"k": 1, "which": "LM"}), [
        ("eig_arnoldi", "alg", {"k": 1, "which": "LM"}, True), ("alg_call", "alg", {}, True),
        ("slogdet_ah", "aalg", {"hkw": {"tol": 0.5, "max_iters": 1, "key": 2}}, True),
        ("unary", "alg", {"f": "sqrt"}, False), ("unary", "alg", {"f": "exp"}, False), ("unary", "alg", {"f": "pow-1"}, False)]),
    "PowerIteration": ({"max_iter": 3}, ("eig_power", "alg", {}), [
        ("eig_power", "alg", {}, True), ("alg_call", "alg", {}, True)]),
    "LOBPCG": ({"max_iters": 2}, ("eig_lobpcg", "alg", {"k": 1, "which": "LM"}), [
        ("eig_lobpcg", "alg", {"k": 1, "which": "LM"}, True), ("svd_lobpcg", "alg", {"k": 1, "which": "LM"}, True)]),
}
PATH_ROUTINES = [(c, e[0]) for c, (_, _, es) in PATH_CLASSES.items() for e in es]
PATH_KINDS_DETERMINISTIC = ("dense", "generic", "kron", "blockdiag", "sum", "diag")


def path_programs_c17():
    """Exhaustive sweep: algorithm class x entry point that accepts the object x operator kind x {explicit, default key}:
         c1 = R0(G, alg)    x = X(A_kind, alg)    repeat c1    repeat x       with ONE caller-owned algorithm object."""
    out = []
    kinds = path_kinds()
    G = {"k": "ann", "name": "PSD", "of": {"k": "generic", "n": 4, "dtype": "f8", "seed": 99, "sym": "psd"}}
    for cname, (kw, r0, entries) in PATH_CLASSES.items():
        cls = "Hutch" if cname.startswith("Hutch") else "Auto" if cname.startswith("Auto") else cname
        for fn, argname, extra, randomised in entries:
            for kname, rec in sorted(kinds.items()):
                if not randomised and kname not in PATH_KINDS_DETERMINISTIC:
                    continue
                for key in (7, None):
                    akw = dict(kw)
                    if key is not None:
                        akw["key"] = key
                    c1 = {"op": "call", "fn": r0[0], "args": dict({"A": {"slot": "G"}, r0[1]: {"algobj": "g"}}, **r0[2])}
                    x = {"op": "call", "fn": fn, "args": dict({"A": {"slot": "AK"}, argname: {"algobj": "g"}}, **extra)}
                    steps = [{"op": "make", "slot": "G", "recipe": G}, {"op": "make", "slot": "AK", "recipe": rec},
                             {"op": "mkalg", "name": "g", "cls": cls, "kw": akw},
                             {"op": "user", "act": ["reseed", 11], "slot": "s0"},
                             dict(c1), dict(x), {"op": "user", "act": ["draw", "randn", 2], "slot": "s0"},
                             dict(c1, repeat_of=4), dict(x, repeat_of=5), {"op": "user", "act": ["draw", "rand", 2], "slot": "s0"}]
                    for j, s in enumerate(steps):
                        s["id"] = j
                    out.append({"name": "%s/%s%s/%s/key=%s" % (cname, fn, "".join("_%s" % v for v in extra.values()
                                                                                 if isinstance(v, (str, int))), kname, key),
                                "program": {"property": "C17", "run_seed": 0, "rng0": 3,
                                            "config": {"path": [cname, fn, kname, key]}, "mode": "explicit", "steps": steps}})
    return out



def huge_programs_c17():
    """Thorough tier only: Krylov bases of more than 2^25 entries (n = 2^21, 16 iterations; ~0.6 GB, ~10 s per call) -- sizes
    at which an implementation may switch to another back-end."""
    out = []
    n = 2**21
    T = {"k": "tridiag", "n": n, "dtype": "f8", "seed": 3, "symm": False}
    S = {"k": "ann", "name": "SelfAdjoint", "of": {"k": "tridiag", "n": n, "dtype": "f8", "seed": 4, "symm": True}}
    for name, rec, fn, kw in [("eig_arnoldi_n2p21", T, "eig_arnoldi", {"k": 2, "which": "LM", "max_iters": 16, "key": 11}),
                              ("eig_arnoldi_default_key_n2p21", T, "eig_arnoldi", {"k": 2, "which": "LM", "max_iters": 16}),
                              ("eig_lanczos_n2p21", S, "eig_lanczos", {"k": 2, "which": "LM", "max_iters": 16, "key": 5})]:
        c = {"op": "call", "fn": fn, "args": dict({"A": {"slot": "A0"}}, **kw)}
        steps = [{"op": "make", "slot": "A0", "recipe": rec}, dict(c), {"op": "user", "act": ["draw", "randn", 2], "slot": "s0"},
                 dict(c, repeat_of=1)]
        for j, st in enumerate(steps):
            st["id"] = j
        out.append({"name": "huge/" + name, "program": {"property": "C17", "run_seed": 0, "rng0": 9, "config": {"large": "huge/" + name},
                                                        "mode": "explicit", "steps": steps}})
    return out


def abort_programs_c17():
    """A call that is aborted inside the user's operator (its k-th product raises), then the same call again with the SAME
    caller-owned algorithm object: algorithm class x entry point x structure with user operators as parts x position of the
    abort.  The fault-free twin of the aborted call is the reference for the repeat (I-KEYED); whatever a routine parks on
    the algorithm object, the operator or a module while it runs must be back in place when it is left by an exception."""
    out = []

    def pr(seed, pid, m=2):
        return _p({"k": "probe", "inner": {"k": "generic", "n": m, "dtype": "f8", "seed": seed, "sym": "psd"}, "pid": pid})

    structures = {
        "probe": _p({"k": "probe", "inner": {"k": "generic", "n": 4, "dtype": "f8", "seed": 60, "sym": "psd"}, "pid": 0}),
        "kron_probes": {"k": "kron", "args": [pr(61, 0), pr(62, 1)]},
        "kronsum_probes": {"k": "kronsum", "args": [pr(63, 0), pr(64, 1)]},
        "sum_probes": {"k": "sum", "args": [pr(65, 0, 4), pr(66, 1, 4)]},
        "blockdiag_probes": {"k": "blockdiag", "args": [pr(67, 0), pr(68, 1)], "mult": [1, 1]},
        "product_probes": {"k": "ann", "name": "PSD", "of": {"k": "product", "args": [pr(69, 0, 4), pr(69, 0, 4)]}},
    }
    for cname, (kw, r0, entries) in PATH_CLASSES.items():
        cls = "Hutch" if cname.startswith("Hutch") else "Auto" if cname.startswith("Auto") else cname
        for fn, argname, extra, randomised in entries:
            if not randomised:
                continue
            for sname, rec in structures.items():
                for at in (0, 1, 3):
                    x = {"op": "call", "fn": fn, "args": dict({"A": {"slot": "AK"}, argname: {"algobj": "g"}}, **extra)}
                    steps = [{"op": "make", "slot": "AK", "recipe": rec},
                             {"op": "mkalg", "name": "g", "cls": cls, "kw": dict(kw, key=7)},
                             dict(x, x={"cb": {str(at): ["raise"]}}), dict(x, repeat_of=2),
                             {"op": "user", "act": ["draw", "randn", 2], "slot": "s0"}]
                    for j, st in enumerate(steps):
                        st["id"] = j
                    name = "abort/%s/%s%s/%s/at=%d" % (cname, fn, "".join("_%s" % v for v in extra.values() if isinstance(v, (str, int))),
                                                       sname, at)
                    out.append({"name": name, "program": {"property": "C17", "run_seed": 0, "rng0": 3,
                                                          "config": {"path": ["abort", cname, fn, sname, at]}, "mode": "explicit",
                                                          "steps": steps}})
    return out


# ------------------------------------------------------------------------------------------
# Large-draw programs (C17): keyed draws of >= 2**20 elements on cheap structured operators, compared across
# process environments (PYTHONHASHSEED, simulated number of usable CPUs); also reaches the n > 100 block logic.
def large_programs_c17():
    out = []

    def prog(name, n, fn, gen=False, dtype="f8", **kw):
        A = {"k": "ann", "name": "PSD", "of": {"k": "diag", "n": n, "dtype": dtype, "seed": 5, "pos": True}}
        if gen:  # no structural diag/trace/eig rule: a user operator computing a diagonal product
            A = {"k": "ann", "name": "PSD", "of": {"k": "no_dispatch", "of": A["of"]}}
        c = {"op": "call", "fn": fn, "args": dict({"A": {"slot": "A0"}}, **kw)}
        steps = [{"op": "make", "slot": "A0", "recipe": A}, dict(c),
                 {"op": "user", "act": ["draw", "randn", 2], "slot": "s0"}, dict(c, repeat_of=1),
                 {"op": "user", "act": ["draw", "rand", 2], "slot": "s0"}]
        for j, s in enumerate(steps):
            s["id"] = j
        out.append({"name": name, "program": {"property": "C17", "run_seed": 0, "rng0": 9, "config": {"large": name},
                                              "mode": "explicit", "steps": steps}})

    prog("hutch_n10500", 10500, "hutch", tol=0.5, max_iters=1, key=3, k=0)
    prog("hutch_rademacher_n10500", 10500, "hutch", tol=0.5, max_iters=1, key=None, k=1, rand="rademacher")
    prog("lanczos_n2p20", 2**20, "lanczos", max_iters=1, key=3)
    prog("arnoldi_n2p20", 2**20, "arnoldi", max_iters=1, key=None)
    prog("power_iteration_n2p20", 2**20, "power_iteration", max_iter=1, key=5)
    prog("nystrom_n2p17_r8", 2**17, "nystrom", rank=8, key=2)
    prog("randomized_svd_n2p17_r8", 2**17, "randomized_svd", rank=8)
    prog("lobpcg_n2p18_k4", 2**18, "lobpcg", max_iters=4, key=1)
    prog("lobpcg_n1000_k4", 1000, "lobpcg", max_iters=4, key=7)
    prog("eig_lobpcg_n600_k3", 600, "lobpcg", max_iters=3, key=2)
    prog("nystrom_n1000_r5", 1000, "nystrom", rank=5, key=None)
    prog("adanys_n300", 300, "adanys", rank=3, bounds=[0.1, 0.5, 2.0])
    prog("select_rank_n300", 300, "select_rank", rank_init=2, rank_max=8, tol=1e-3)
    prog("slq_n300", 300, "slq", fun="log", max_iters=10, vtol=0.5, key=4)
    prog("power_iteration_n1000", 1000, "power_iteration", max_iter=50, tol=1e-9, key=None)
    prog("lanczos_n300_full", 300, "lanczos", max_iters=300, tol=1e-7, key=1)
    # prod(shape) > 1e6: the Auto() wrappers switch to their iterative / stochastic branches with DEFAULT keys
    prog("diag_auto_n1001", 1001, "diag_auto", gen=True, tol=0.5, max_iters=1, k=0)
    prog("trace_auto_n1001_key", 1001, "trace_auto", gen=True, tol=0.5, max_iters=1, key=5)
    prog("eig_auto1_n1001", 1001, "eig_auto1", gen=True, max_iter=3)
    prog("eig_default_large_sa", 1001, "eig", gen=True, k=2, which="LM", alg="Auto", akw={"max_iters": 5})
    # single precision and complex above the 2^20-entry mark
    prog("hutch_f4_n10500", 10500, "hutch", dtype="f4", tol=0.5, max_iters=1, key=3, k=0)
    prog("hutch_c8_rademacher_n10500", 10500, "hutch", dtype="c8", tol=0.5, max_iters=1, key=4, k=0, rand="rademacher")
    prog("lanczos_f4_n2p20", 2**20 + 5, "lanczos", dtype="f4", max_iters=1, key=3)
    # nesting at large size: the user operator's product itself runs a keyed routine on ANOTHER operator of the same size and
    # dtype (probe blocks / start vectors of >= 1 MiB); then the same call, not nested -- must be bit-identical
    for n in (1500, 2700):
        for dt in ("f8", "f4"):
            An = {"k": "ann", "name": "PSD", "of": {"k": "probe", "inner": {"k": "diag", "n": n, "dtype": dt, "seed": 6, "pos": True},
                                                     "pid": 0}}
            Bn = {"k": "ann", "name": "PSD", "of": {"k": "no_dispatch", "of": {"k": "diag", "n": n, "dtype": dt, "seed": 7, "pos": True}}}
            for nm, outer, inner in [
                    ("hutch_in_hutch", ("hutch", {"tol": 0.5, "max_iters": 2, "key": 3, "k": 0}),
                     ("hutch", {"tol": 0.5, "max_iters": 1, "key": 5, "k": 0})),
                    ("hutch_rademacher_in_hutch", ("hutch", {"tol": 0.5, "max_iters": 1, "key": 3, "k": 1}),
                     ("hutch", {"tol": 0.5, "max_iters": 1, "key": 3, "k": 0, "rand": "rademacher"})),
                    ("lanczos_in_hutch", ("hutch", {"tol": 0.5, "max_iters": 1, "key": 3, "k": 0}), ("lanczos", {"max_iters": 2, "key": 3})),
                    ("hutch_in_lanczos", ("lanczos", {"max_iters": 3, "key": 4}), ("hutch", {"tol": 0.5, "max_iters": 1, "key": 4, "k": 0})),
                    ("power_in_power", ("power_iteration", {"max_iter": 3, "key": 2}), ("power_iteration", {"max_iter": 2, "key": 2})),
                    ("slq_in_hutch", ("trace_hutch", {"tol": 0.5, "max_iters": 1, "key": 8}),
                     ("slq", {"fun": "exp", "max_iters": 2, "vtol": 1.0, "key": 8}))]:
                if (n, dt) == (1500, "f4") and nm != "hutch_in_hutch":
                    continue
                c = {"op": "call", "fn": outer[0], "args": dict({"A": {"slot": "A0"}}, **outer[1])}
                sub = {"op": "call", "fn": inner[0], "args": dict({"A": {"slot": "B0"}}, **inner[1])}
                steps = [{"op": "make", "slot": "A0", "recipe": An}, {"op": "make", "slot": "B0", "recipe": Bn},
                         dict(c, x={"cb": {"0": ["reenter", 0]}}, menu=[sub]), dict(c, repeat_of=2),
                         {"op": "user", "act": ["draw", "randn", 2], "slot": "s0"}]
                for j, st in enumerate(steps):
                    st["id"] = j
                name = "nested/%s/n=%d/%s" % (nm, n, dt)
                out.append({"name": name, "program": {"property": "C17", "run_seed": 0, "rng0": 9, "config": {"large": name},
                                                      "mode": "explicit", "steps": steps}})
    prog("hutch_n101", 101, "hutch", tol=0.5, max_iters=2, key=3, k=0)
    prog("hutch_n1000", 1000, "hutch", tol=0.5, max_iters=1, key=3, k=-3)
    return out


# ------------------------------------------------------------------------------------------
# C17 routine x operator-kind matrix: every randomised routine called directly (no algorithm object) on every
# operator kind, then again on a TWIN operator built from the same recipe (equal value, other object), with user
# draws in between.  Exhaustive over the matrix.
MATRIX_ROUTINES = [
    ("hutch", {"tol": 0.2, "max_iters": 2, "k": 0}, True), ("hutch", {"tol": 0.2, "max_iters": 2, "k": 1, "rand": "rademacher"}, True),
    ("slq", {"fun": "log", "max_iters": 3, "vtol": 0.6}, True), ("slq", {"fun": "exp", "max_iters": 2, "vtol": 1.0, "pbar": True}, True),
    ("lanczos", {"max_iters": 3}, True), ("lanczos_eigs", {"max_iters": 3}, True),
    ("arnoldi", {"max_iters": 3}, True), ("arnoldi_eigs", {"max_iters": 3}, True), ("arnoldi", {"max_iters": 100}, True), ("lanczos", {"max_iters": 100, "pbar": True}, True),
    ("power_iteration", {"max_iter": 3}, True), ("nystrom", {"rank": 2}, True),
    ("cg_nystrom", {"rank": 2, "max_iters": 3, "b": {"arr": {"shape": [4], "dtype": "f8", "seed": 9}}}, True),
    ("lobpcg", {"max_iters": 2}, True),
    ("nystrom_pipeline", {"rank": 2, "max_iters": 3, "b": {"arr": {"shape": [4], "dtype": "f8", "seed": 9}}}, True),
    ("adanys", {"rank": 2, "bounds": [0.1, 0.5, 2.0]}, False), ("select_rank", {"rank_init": 1, "rank_max": 2, "tol": 1.0}, False),
    ("randomized_svd", {"rank": 2}, False),
    # degenerate parameters
    ("hutch", {"tol": 5.0, "max_iters": 0, "k": 0}, True), ("hutch", {"tol": 0.0011, "max_iters": 1, "k": -1, "pbar": True}, True),
    ("lanczos", {"max_iters": 1}, True), ("arnoldi", {"max_iters": 1}, True), ("power_iteration", {"max_iter": 1, "tol": 2.0}, True),
    ("nystrom", {"rank": 4}, True), ("randomized_svd", {"rank": 4}, False), ("lobpcg", {"max_iters": 1}, True),
]


def temporary_programs_c17():
    """Temporaries in a loop: an operand is built, used and dropped (really freed), then the next operand of the same kind
    and shape but other data is built -- CPython hands it the address just freed -- and so on; plus one single-operand
    program per operand.  With the cross-history table (operands are identified by value), a result that depends on the
    id() of a dead operator is reported."""
    out = []

    def dense(i):  # plain Dense / generic operator: ONE Python object per operand, so the freed address is reused at once
        return {"k": "dense", "n": 4, "dtype": "f8", "seed": 500 + i, "sym": "psd"}

    def generic(i):
        return {"k": "generic", "n": 4, "dtype": "f8", "seed": 600 + i, "sym": "psd"}

    for fn, kw, keyed in MATRIX_ROUTINES:
        for kname, mkrec in (("dense", dense), ("generic", generic)):
            a = dict(kw)
            if keyed:
                a["key"] = 7
            loop = []
            for i in range(5):
                mk = {"op": "make", "slot": "T%d" % i, "recipe": mkrec(i)}
                if i:
                    mk["reuse_id_of"] = "T%d" % (i - 1)  # the simulator decides the address: the one just freed
                loop += [mk,
                         {"op": "call", "fn": fn, "args": dict({"A": {"slot": "T%d" % i}}, **a)},
                         {"op": "drop", "slot": "T%d" % i}]
                single = [{"op": "make", "slot": "T%d" % i, "recipe": mkrec(i)},
                          {"op": "call", "fn": fn, "args": dict({"A": {"slot": "T%d" % i}}, **a)}]
                for j, s in enumerate(single):
                    s["id"] = j
                out.append({"name": "temporary-single/%s/%s/%d" % (fn, kname, i),
                            "program": {"property": "C17", "run_seed": 0, "rng0": 3, "config": {"matrix": ["tsingle", fn, kname, i]},
                                        "mode": "explicit", "steps": single}})
            for j, s in enumerate(loop):
                s["id"] = j
            out.append({"name": "temporary-loop/%s%s/%s" % (fn, "".join("_%s" % v for v in kw.values() if isinstance(v, (str, int))),
                                                          kname),
                        "program": {"property": "C17", "run_seed": 0, "rng0": 3, "config": {"matrix": ["tloop", fn, kname]},
                                    "mode": "explicit", "steps": loop}})
    return out


def matrix_programs_c17():
    out = []
    for fn, kw, keyed in MATRIX_ROUTINES:
        for kname, rec in sorted(path_kinds().items()):
            for key in ((7, None) if keyed else ("-", )):
                a = dict(kw)
                if key != "-" and key is not None:
                    a["key"] = key
                if "b" in a and kname in ("float32", "complex"):
                    a["b"] = {"arr": dict(a["b"]["arr"], dtype="f4" if kname == "float32" else "c16")}
                c1 = {"op": "call", "fn": fn, "args": dict({"A": {"slot": "AK"}}, **a)}
                c2 = {"op": "call", "fn": fn, "args": dict({"A": {"slot": "AKb"}}, **a)}
                steps = [{"op": "make", "slot": "AK", "recipe": rec}, {"op": "make", "slot": "AKb", "recipe": rec},
                         {"op": "user", "act": ["reseed", 13], "slot": "s0"}, c1,
                         {"op": "user", "act": ["draw", "randn", 2], "slot": "s0"}, c2, dict(c1, repeat_of=3),
                         {"op": "user", "act": ["draw", "rand", 2], "slot": "s0"}]
                for j, s in enumerate(steps):
                    s["id"] = j
                out.append({"name": "%s%s/%s/key=%s" % (fn, "".join("_%s" % v for v in kw.values() if isinstance(v, (str, int))),
                                                       kname, key),
                            "program": {"property": "C17", "run_seed": 0, "rng0": 3, "config": {"matrix": [fn, kname, str(key)]},
                                        "mode": "explicit", "steps": steps}})
    return out + temporary_programs_c17()


# ------------------------------------------------------------------------------------------
# Operand-interaction programs (C17): a keyed routine on a *variant* operand (same shape, other precision / other
# field / other entries / other class) and then a keyed routine with the same key on the base operand.  The call on the
# base operand also occurs alone in the routine x kind matrix, so the cross-history table reports a result that depends on
# what was drawn before it for an equal (key, shape) -- a memo that forgets the precision, a buffer whose tail survives, a
# start vector kept "for reuse".
def interaction_programs_c17(tier="quick"):
    kinds = path_kinds()
    n = 4

    def G(dt, seed, sym="psd", k="generic"):
        return {"k": "ann", "name": "PSD", "of": {"k": k, "n": n, "dtype": dt, "seed": seed, "sym": sym}}

    bases = {"generic": "f8", "float32": "f4", "complex": "c16"}  # kinds of the routine x kind matrix (single-call references)
    other = {"f8": ("f4", "c16", "c8"), "f4": ("f8", "c8"), "c16": ("c8", "f8")}
    keyed = [(fn, kw) for fn, kw, k in MATRIX_ROUTINES if k]
    seen, core1 = set(), []
    for fn, kw in keyed:
        if fn in ("hutch", "lanczos", "arnoldi", "power_iteration", "nystrom", "lobpcg", "slq") and fn not in seen:
            seen.add(fn)
            core1.append((fn, kw))
    out = []

    def args(fn, kw, slot, dt):
        a = dict(kw, key=7)
        if "b" in a and dt != "f8":
            a["b"] = {"arr": dict(a["b"]["arr"], dtype="f4" if dt in ("f4", ) else "c16" if dt == "c16" else dt)}
        return dict({"A": {"slot": slot}}, **a)

    def add(r1, vname, vrec, vdt, r2, bname):
        steps = [{"op": "make", "slot": "V", "recipe": vrec},
                 {"op": "call", "fn": r1[0], "args": args(r1[0], r1[1], "V", vdt)},
                 {"op": "make", "slot": "AK", "recipe": kinds[bname]},
                 {"op": "call", "fn": r2[0], "args": args(r2[0], r2[1], "AK", bases[bname])}]
        for j, s in enumerate(steps):
            s["id"] = j
        nm = lambda r: r[0] + "".join("_%s" % x for x in r[1].values() if isinstance(x, (str, int)))  # noqa: E731
        out.append({"name": "interaction/%s(%s)->%s(%s)" % (nm(r1), vname, nm(r2), bname),
                    "program": {"property": "C17", "run_seed": 0, "rng0": 3,
                                "config": {"matrix": ["interaction", nm(r1), vname, nm(r2), bname]},
                                "mode": "explicit", "steps": steps}})

    for bname, bdt in bases.items():
        variants = {dt: (G(dt, 30 + i), dt) for i, dt in enumerate(other[bdt])}
        # same precision as the base: other entries, another class, and degenerate matrices (rank-deficient, zero), on which
        # a routine takes its retry / fallback paths (or is refused)
        variants.update({"other": (G(bdt, 40), bdt), "dense": (G(bdt, 41, k="dense"), bdt),
                         "singular": (G(bdt, 42, "psd_singular"), bdt), "zero": (G(bdt, 43, "zero"), bdt)})
        # (whether a rank-deficient matrix makes a factorisation fail at the first attempt is a matter of round-off: several)
        variants.update({"singular%d" % i: (G(bdt, 44 + i, "psd_singular", k="dense"), bdt) for i in range(1, 5)})
        variants["rank1"] = (G(bdt, 49, "psd_rank1"), bdt)
        if tier == "quick" and bname != "generic":
            variants = {k: v for k, v in variants.items() if k.startswith(("singular", "zero", "rank1")) or k == other[bdt][0]}
        for r in keyed:
            for vname, (vrec, vdt) in variants.items():
                add(r, vname, vrec, vdt, r, bname)
    # many other keyed draws in between (one Hutchinson call that walks 300 links of its key chain, then 40 different
    # explicit keys): whatever is memoised per draw has long been evicted when the first call is repeated
    for r in keyed:
        steps = [{"op": "make", "slot": "AK", "recipe": kinds["generic"]},
                 {"op": "call", "fn": r[0], "args": args(r[0], r[1], "AK", "f8")},
                 {"op": "make", "slot": "V", "recipe": G("f8", 40)},
                 {"op": "call", "fn": "hutch", "args": {"A": {"slot": "V"}, "tol": 0.0011, "max_iters": 300, "k": 0, "key": 1000}}]
        steps += [{"op": "call", "fn": "lanczos", "args": {"A": {"slot": "V"}, "max_iters": 1, "key": 2000 + i}} for i in range(40)]
        steps += [{"op": "call", "fn": r[0], "args": args(r[0], r[1], "AK", "f8"), "repeat_of": 1}]
        for j, st in enumerate(steps):
            st["id"] = j
        nm = r[0] + "".join("_%s" % x for x in r[1].values() if isinstance(x, (str, int)))
        out.append({"name": "interaction/eviction/%s" % nm,
                    "program": {"property": "C17", "run_seed": 0, "rng0": 3, "config": {"matrix": ["interaction", "eviction", nm]},
                                "mode": "explicit", "steps": steps}})
    for r1 in core1:
        for r2 in core1:
            if r1 is not r2:
                for vname in (("f4", ) if tier == "quick" else ("f4", "c16", "other")):
                    vrec, vdt = (G("f4", 30), "f4") if vname == "f4" else (G("c16", 31), "c16") if vname == "c16" else (G("f8", 40), "f8")
                    add(r1, vname, vrec, vdt, r2, "generic")
    return out


# ------------------------------------------------------------------------------------------
# Key-interaction programs (C17): every ordered pair of special key values on one operator (Hutchinson walks the hash
# chain; the others seed the draw directly).  Together with the single-key programs and the cross-history result
# table, a key whose result depends on which other key was used before it is reported.
SPECIAL_KEYS = [None, 0, 1, 42, 2**31, 2**32 - 2, 2**32 - 1, 2**32, 2**32 + 1, 2**64 + 3]


def key_programs_c17():
    out = []
    G = {"k": "ann", "name": "PSD", "of": {"k": "generic", "n": 4, "dtype": "f8", "seed": 99, "sym": "psd"}}

    def hutch(key):
        a = {"A": {"slot": "G"}, "tol": 0.2, "max_iters": 2, "k": 0}
        if key is not None:
            a["key"] = key
        return {"op": "call", "fn": "hutch", "args": a}

    def direct(fn, key):
        a = {"A": {"slot": "G"}, "max_iters": 2} if fn != "power_iteration" else {"A": {"slot": "G"}, "max_iter": 2}
        if key is not None:
            a["key"] = key
        return {"op": "call", "fn": fn, "args": a}

    def add(name, calls):
        steps = [{"op": "make", "slot": "G", "recipe": G}] + calls
        for j, s in enumerate(steps):
            s["id"] = j
        out.append({"name": name, "program": {"property": "C17", "run_seed": 0, "rng0": 3, "config": {"keys": name},
                                              "mode": "explicit", "steps": steps}})

    for k1 in SPECIAL_KEYS:
        add("hutch/%s" % k1, [hutch(k1)])
        for k2 in SPECIAL_KEYS:
            if k1 != k2:
                add("hutch/%s,%s" % (k1, k2), [hutch(k1), hutch(k2)])
    small = [k for k in SPECIAL_KEYS if k is None or k < 2**32]
    for fn in ("lanczos", "arnoldi", "power_iteration"):
        for k1 in small:
            add("%s/%s" % (fn, k1), [direct(fn, k1)])
            for k2 in small:
                if k1 != k2:
                    add("%s/%s,%s" % (fn, k1, k2), [direct(fn, k1), direct(fn, k2)])
    return out


# ------------------------------------------------------------------------------------------
# I-STEPS programs (C17): Hutchinson on a user operator whose products are counted, with non-finite products
# injected at chosen iterations, for every small max_iters: at most max(1, max_iters) products, always.
def steps_programs_c17(tier="quick"):
    out = []
    A = {"k": "ann", "name": "PSD", "of": {"k": "probe", "inner": {"k": "generic", "n": 4, "dtype": "f8", "seed": 31, "sym": "psd"},
                                            "pid": 0}}
    for mi in (0, 1, 2, 3, 6):
        for rand in ("normal", "rademacher"):
            for fault in (None, {"0": ["nonfinite", "nan"]}, {"0": ["nonfinite", "inf"]}, {"1": ["nonfinite", "nan"]},
                          {"0": ["nonfinite", "nan"], "1": ["nonfinite", "nan"], "2": ["nonfinite", "nan"]}):
                for fn, extra in (("hutch", {"k": 0}), ("diag_hutch", {"k": 0}), ("trace_hutch", {})):
                    c = {"op": "call", "fn": fn, "args": dict({"A": {"slot": "A0"}, "tol": 0.0011, "max_iters": mi, "rand": rand,
                                                                "key": 3}, **extra)}
                    if fault:
                        c["x"] = {"cb": fault}
                    steps = [{"op": "make", "slot": "A0", "recipe": A}, c, {"op": "user", "act": ["draw", "randn", 1], "slot": "s0"}]
                    for j, s in enumerate(steps):
                        s["id"] = j
                    out.append({"name": "%s/max_iters=%d/%s/%s" % (fn, mi, rand, "+".join(sorted(fault)) if fault else "clean"),
                                "program": {"property": "C17", "run_seed": 0, "rng0": 3, "config": {"steps": [fn, mi]},
                                            "mode": "explicit", "steps": steps}})
    # every small size (block size = min(100, n): 1 x 1 and 2 x 2 operators have degenerate sample statistics), a size above
    # the block size, off-diagonals, tolerances that are / are not reached
    for n in (1, 2, 3, 101):
        An = {"k": "ann", "name": "PSD", "of": {"k": "probe", "inner": {"k": "generic", "n": n, "dtype": "f8", "seed": 32, "sym": "psd"},
                                                 "pid": 0}}
        for mi in (0, 1, 2, 5):
            for rand in ("normal", "rademacher"):
                for tol in (0.0011, 50.0):
                    for fn, extra in (("hutch", {"k": 0}), ("hutch", {"k": -(n - 1)}), ("trace_hutch", {})):
                        c = {"op": "call", "fn": fn, "args": dict({"A": {"slot": "A0"}, "tol": tol, "max_iters": mi, "rand": rand,
                                                                    "key": 5}, **extra)}
                        steps = [{"op": "make", "slot": "A0", "recipe": An}, c]
                        for j, s in enumerate(steps):
                            s["id"] = j
                        out.append({"name": "%s/n=%d/max_iters=%d/%s/tol=%g/k=%s" % (fn, n, mi, rand, tol, extra.get("k", "-")),
                                    "program": {"property": "C17", "run_seed": 0, "rng0": 3, "config": {"steps": [fn, mi, n]},
                                                "mode": "explicit", "steps": steps}})
    # long runs: the cap must hold for EVERY value of max_iters, also beyond any internal "check only every so often" stride --
    # caps just above powers of two and round decimal numbers, with a tolerance that is never met
    for mi in (7, 10, 17, 33, 65, 100, 129, 150, 257, 1000, 1025) + ((2049, 4097) if tier == "thorough" else ()):
        for rand in ("normal", "rademacher"):
            for fn, extra in (("hutch", {"k": 0}), ("hutch", {"k": 1}), ("diag_hutch", {"k": 0}), ("trace_hutch", {})):
                c = {"op": "call", "fn": fn, "args": dict({"A": {"slot": "A0"}, "tol": 0.0011, "max_iters": mi, "rand": rand, "key": 3},
                                                          **extra)}
                steps = [{"op": "make", "slot": "A0", "recipe": A}, c]
                for j, s in enumerate(steps):
                    s["id"] = j
                out.append({"name": "%s/long/max_iters=%d/%s/k=%s" % (fn, mi, rand, extra.get("k", "-")),
                            "program": {"property": "C17", "run_seed": 0, "rng0": 3, "config": {"steps": [fn, mi, "long"]},
                                        "mode": "explicit", "steps": steps}})
    return out
