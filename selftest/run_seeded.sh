#!/bin/sh
# Apply each kept seeded change to /repo (git apply), run the owning check, undo it straight afterwards.
# usage: selftest/run_seeded.sh [tier] [only-substring]
TIER=${1:-quick}; ONLY=$2
cd /verif
for d in seeded/*/; do
  id=$(basename $d)
  case "$id" in *"$ONLY"*) ;; *) continue;; esac
  prop=$(/venv/bin/python -c "import json;print(json.load(open('$d/meta.json'))['property'])" 2>/dev/null || (echo $id | grep -q c17 && echo C17 || echo C18))
  if [ -n "$(git -C /repo status --porcelain --untracked-files=no)" ]; then echo "/repo not clean, refusing"; exit 2; fi
  git -C /repo apply /verif/$d/patch.diff || { echo "$id PATCH-FAILED"; continue; }
  EV=$(mktemp -d /tmp/seed-ev-XXXX)
  out=$(VERIF_EVIDENCE_DIR=$EV VERIF_REPLAY_DIR=$EV ./check $prop --tier $TIER 2>&1)
  code=$?
  git -C /repo checkout -- .
  echo "$id $prop exit=$code $(echo "$out" | grep -E '^VIOLATION|^  invariant' | head -4 | tr '\n' ' ' | sed "s#$EV/##g")"
  rm -rf $EV
done
