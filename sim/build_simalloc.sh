#!/bin/sh
# Build the fault-injecting NumPy allocator into /verif/build (offline; gcc + local headers only).
set -e
HERE="$(cd "$(dirname "$0")/.." && pwd)"
PY="${VERIF_PYTHON:-/venv/bin/python}"
mkdir -p "$HERE/build"
INC=$($PY -c "import sysconfig; print(sysconfig.get_paths()['include'])")
NPINC=$($PY -c "import numpy; print(numpy.get_include())")
SUF=$($PY -c "import sysconfig; print(sysconfig.get_config_var('EXT_SUFFIX'))")
OUT="$HERE/build/simalloc$SUF"
if [ ! -f "$OUT" ] || [ "$HERE/sim/simalloc.c" -nt "$OUT" ]; then
  gcc -O2 -shared -fPIC -I"$INC" -I"$NPINC" "$HERE/sim/simalloc.c" -o "$OUT.tmp.$$"
  mv "$OUT.tmp.$$" "$OUT"
fi
echo "$OUT"
