"""Evidence file writer: measured counters only."""
import json
import os
import time

from .check import VERIF


def write(run, nviol, assumptions, known):
    from . import coordinator
    wall = time.time() - run.t0
    rand = run.phase_info.get("random", {})
    rph = (rand.get("runs", 0) / rand["wall_s"] * 3600) if rand.get("wall_s") else 0
    probes = {k: v for k, v in sorted(run.stats.items()) if not k.startswith(("calls:", "ops_made:", "exc:", "alloc_fail_fired:"))}
    cov = {
        "evaluations": run.evals,
        "distinct_nontrivial": len(run.nontrivial_sigs),
        "rule": ("one evaluation = one simulated history (seeded random run, exhaustive-sweep history, dispatch-path program, "
                 "member of a differential-history pair, crash-point-enumeration program or unbiasedness panel "
                 "configuration) executed in its own forked pristine interpreter; "
                 "distinct = distinct abstract schedule = hash of the sequence of (step kind, routine/operator kind, outcome "
                 "class, set of user-party/fault action kinds taken inside the call); non-trivial = the history contains at "
                 "least one cola call or construction AND at least one user-party action (draw/reseed/re-entrant call) or "
                 "injected fault; panel and crash-enumeration jobs are not counted as distinct"),
        "samples": run.samples[:3] or [{"note": "no non-trivial ok sample captured"}],
        "exhaustive": False,
        "distinct_abstract_schedules_all": len(run.sigs),
        "run_status_counts": dict(run.status),
        "simulated_runs_per_hour_random_phase": int(rph),
        "seeds_per_hour_random_phase": int(rph),
        "steps_executed": int(run.stats.get("steps", 0)),
        "operator_callbacks_executed": int(run.stats.get("callbacks", 0)),
        "simulated_seconds_covered_by_simclock": float(run.stats.get("sim_seconds", 0.0)),
        "fault_kinds_fired": {k: int(v) for k, v in sorted(run.fired.items())},
        "alloc_fail_fired_by_action": {k.split(":", 1)[1]: int(v) for k, v in sorted(run.stats.items())
                                       if k.startswith("alloc_fail_fired:")},
        "reach_probes": {k: (int(v) if float(v).is_integer() else v) for k, v in probes.items()},
        "calls_by_routine": {k.split(":", 1)[1]: int(v) for k, v in sorted(run.stats.items()) if k.startswith("calls:")},
        "operators_constructed_by_kind": {k.split(":", 1)[1]: int(v) for k, v in sorted(run.stats.items())
                                          if k.startswith("ops_made:")},
        "legitimate_cola_errors_by_type": {k.split(":", 1)[1]: int(v) for k, v in sorted(run.stats.items())
                                           if k.startswith("exc:")},
        "evaluations_touching_backend_shim": int(run.stats.get("shim_calls", 0)),
        "phases": run.phase_info,
        "components": getattr(run, "components", None) or COMPONENTS_NOTE,
        "workers": run.workers,
        "zygote": getattr(run, "hello", None),
        "known_findings_matched": dict(run.known_hits),
        "known_findings_file": {"open": [f["id"] for f in known.get("findings", [])],
                                "fixed": [f.get("id") for f in known.get("fixed", [])]},
    }
    ev = {"property_id": run.prop, "tier": run.tier, "seed": run.seed, "level": "exploration", "coverage": cov,
          "assumptions": assumptions, "wall_s": round(wall, 1), "violations": nviol}
    edir = os.environ.get("VERIF_EVIDENCE_DIR") or os.path.join(VERIF, "evidence")
    os.makedirs(edir, exist_ok=True)
    path = os.path.join(edir, "%s.json" % run.prop)
    tmp = path + ".tmp"
    json.dump(ev, open(tmp, "w"), indent=1, default=str)
    os.replace(tmp, path)


COMPONENTS_NOTE = {
    "cola (all of cola/ from /repo working tree), plum, optree, numpy, scipy": "real",
    "process-wide NumPy generator": "real object, observed; user's stream mirrored on a reference RandomState",
    "CPython small-object allocator (which address a new operator gets)": "real pymalloc, steered through an owned pool (sim/addr.py)",
    "NumPy data allocator": "real malloc behind fault-injecting PyDataMem handler (simalloc.c)",
    "clock (cola.utils.torch_tqdm.time)": "stub SimClock",
    "progress bar (tqdm)": "stub FakeBar",
    "np_fns.vmap / linear_transpose / sparse_csr / to_np": "stub (harness shim)",
    "user party (operator callbacks, top-level draws)": "harness",
    "caller threads (C17, C18)": "real threads, one baton: sys.settrace line events inside cola/ are the pre-emption points, the seeded scheduler decides every switch (sim/threads.py, sim/threads18.py); C18 additionally: a continuous observer after every source line",
    "jax / torch backends": "absent",
}
