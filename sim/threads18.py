"""Caller threads under the deterministic baton scheduler -- C18 (operators are persistent values).

A value that is never modified can be used by several caller threads at once.  So two or three caller threads run public
operations on SHARED operators, right-hand sides, initial guesses and algorithm objects; every source line executed inside
cola/ is a pre-emption point and the seeded scheduler decides every switch (sim/threads.py: real threads, ONE baton, the
switch list is the replay).  What single-threaded histories cannot see and these can: something a cola operation modifies
TEMPORARILY and restores before it returns (an attribute of the caller's algorithm object, an annotation set, a payload
scaled in place and rescaled, a module-level scratch buffer) -- invisible after the call, visible to whoever runs in the
window.

Three modes:
  * observer    -- ONE caller thread; after EVERY source line it executes inside cola/ the observer compares every caller-owned
                   array (bytes, shape, strides, flags), every caller-owned algorithm object, the shared default Auto() instances
                   and every pool operator (class, shape, dtype, annotations, parameter arrays by bytes) with what they were
                   before the call: exhaustive over the pre-emption points of that execution, no sampling;
  * line_sweep  -- thread 0 pre-empted once at (a seed-rotated subset of) every distinct line while thread 1 runs its calls
                   on the same shared operands to completion;
  * seeded      -- 2-3 threads, random switches.
Oracle for the latter two: every call returns what the same call returned alone (single-threaded, same process, before the
threads start), and afterwards every C18 invariant holds on a forked observer snapshot (I-INPUT, I-OP, I-FLAT).
"""
import hashlib
import json
import random
import sys
import threading
import traceback
from collections import Counter

from . import threads as T


class _V(Exception):
    def __init__(self, inv, detail):
        self.inv, self.detail = inv, detail


def _cheap_state(ctx, rm):
    """What an observer thread can look at without using any operator (no products, no to_dense): pure reads."""
    out = {}
    for key, (a, base, dig) in ctx.ledger.items.items():
        out["arr:" + key] = dig if ctx.ledger._dig(a, base) == dig else "CHANGED"
    for name, (obj, dig) in ctx.algs.items():
        out["alg:" + name] = ctx.alg_digest(obj)
    for i, (obj, dig) in enumerate(ctx.auto_defaults):
        out["auto:%d" % i] = ctx.alg_digest(obj)
    for slot, e in ctx.pool.items():
        fp = rm.op_fingerprint(e.op, dense=False)
        out["op:" + slot] = [fp, rm.params_digest(e.op) if e.structural else None]
    return json.loads(json.dumps(out, default=str))


def _diff(a, b):
    return sorted(k for k in set(a) | set(b) if a.get(k) != b.get(k))


def run(program):
    from . import refmodel as rm
    from . import world
    from .calls import call
    from .interp import Ctx, HarnessBound, Violation, _cola_frame, _exc_kind, _raised_in_harness
    T.REPO_COLA = world.REPO.rstrip("/") + "/cola/"
    spec = program["threads"]
    if spec.get("mode") == "line_sweep":
        return T._line_sweep(program, runner=run)
    seed = program.get("run_seed", 0)
    ctx = Ctx({"property": "C18", "steps": program.get("steps", []), "run_seed": seed, "rng0": program.get("rng0", 5),
               "config": {}, "mode": "explicit"})
    stats = Counter()
    status, viol, err = "ok", None, None
    events_log = []
    mat = json.loads(json.dumps(program))
    baton = None
    try:
        ctx.run()  # prefix: the shared operators, arrays and algorithm objects (single-threaded, all invariants on)
        tasks = spec["tasks"]

        def do(item):
            try:
                if item.get("op") == "make":
                    return ["ok", ctx.builder.op(item["recipe"])]
                return ["ok", call(item["fn"], **ctx.resolve_args(item.get("args", {})))]
            except Exception as e:  # cola's own refusal is a result
                if _raised_in_harness(e):
                    raise
                return [_exc_kind(e), type(e).__name__]

        def digests(raw, after):
            def body():
                ctx._flat_skip = False
                ctx._invariants_c18(after)
                return [[[o[0], rm.result_digest(o[1]) if o[0] == "ok" else o[1]] for o in t] for t in raw]
            return ctx.snapshot_eval(body)

        # 1. every call alone, in task order (reference; also instantiates every class and resolves every dispatch signature
        #    single-threaded: first-instantiation order is the business of the single-threaded histories)
        raw = [[do(c) for c in t.get("calls", [])] for t in tasks]
        ref = digests(raw, "the reference calls (single-threaded)")
        del raw
        state0 = _cheap_state(ctx, rm)
        # 2. the same calls under the baton
        mode = spec.get("mode")
        if mode == "observer":
            nlines = [0]
            where = [None]

            found = []

            def local(frame, event, arg):
                if event == "line" and not found:
                    nlines[0] += 1
                    now = _cheap_state(ctx, rm)
                    if now != state0:  # recorded, raised after the call returns (an exception here would be thrown INTO cola)
                        found.append(_V("I-INPUT" if any(k.startswith(("arr:", "alg:", "auto:")) for k in _diff(now, state0)) else "I-OP", {
                            "what": "a caller-owned value differs from what it was before the call WHILE the call is in flight "
                                    "(observed by a concurrent reader; the call may restore it before it returns)",
                            "changed": _diff(now, state0)[:4], "line_event": nlines[0], "fn": where[0],
                            "cola_line": "%s:%d" % (frame.f_code.co_filename[len(T.REPO_COLA) - 5:], frame.f_lineno)}))
                return local

            def glob(frame, event, arg):
                if event == "call" and frame.f_code.co_filename.startswith(T.REPO_COLA) and frame.f_code.co_name != "<module>":
                    return local
                return None

            got_raw = []
            for t in tasks:
                row = []
                for c in t.get("calls", []):
                    where[0] = c.get("fn") or c.get("recipe", {}).get("k")
                    sys.settrace(glob)
                    try:
                        row.append(do(c))
                    finally:
                        sys.settrace(None)
                    if found:
                        raise found[0]
                got_raw.append(row)
            stats["observer_line_events"] = nlines[0]
            stats["observer_runs"] = 1
            sw = []
            nev = nlines[0]
        else:
            rng = random.Random("threads18:%s" % seed)
            explicit = None
            if spec.get("sw") is not None:
                explicit = {int(e): int(t) for e, t in spec["sw"]}
            baton = T.Baton(len(tasks), rng, spec.get("p", 0.05), explicit, record=bool(spec.get("record_lines")))
            got_raw = [[] for _ in tasks]
            errors = []
            seen = []

            def body(tid, t):
                try:
                    baton.wait_turn(tid)
                    if baton.aborted is not None:
                        return
                    for _ in range(t.get("observe", 0)):
                        if "calls" not in t:
                            baton.yield_point(tid)
                        now = _cheap_state(ctx, rm)
                        if now != state0:
                            seen.append(_diff(now, state0)[:4])
                        if "calls" not in t:
                            baton.yield_point(tid)
                    if "calls" in t:
                        sys.settrace(T._tracer(baton, tid))
                        try:
                            for c in t.get("calls", []):
                                got_raw[tid].append(do(c))
                        finally:
                            sys.settrace(None)
                except SystemExit:
                    pass
                except BaseException as e:  # noqa
                    errors.append("".join(traceback.format_exception(type(e), e, e.__traceback__))[-2500:])
                    baton.abort("harness error in thread %d" % tid)
                finally:
                    baton.finish(tid)

            ths = [threading.Thread(target=body, args=(tid, t), name="sim-thread-%d" % tid, daemon=True) for tid, t in enumerate(tasks)]
            for th in ths:
                th.start()
            for th in ths:
                th.join(100)
            if errors:
                raise RuntimeError(errors[0])
            if baton.aborted is not None or any(th.is_alive() for th in ths):
                raise HarnessBound(baton.aborted or "threads did not finish")
            stats["thread_runs"] = 1
            stats["thread_preemption_points"] = baton.events
            stats["thread_switches"] = len(baton.switches)
            stats["thread_calls"] = sum(len(g) for g in got_raw)
            sw = baton.switches
            nev = baton.events
            mat["threads"]["sw"] = sw
            if baton.lines is not None:
                program["_lines"] = baton.lines
            if seen:
                raise _V("I-INPUT" if any(k.startswith(("arr:", "alg:", "auto:")) for k in seen[0]) else "I-OP", {
                    "what": "an observer thread saw a caller-owned value differ from what it was before the calls, while a call of "
                            "another caller thread was in flight", "changed": seen[0], "switches": len(sw)})
        got = digests(got_raw, "the threaded calls")
        events_log = [nev, sw, ref, got]
        for tid, t in enumerate(tasks):
            for j, (a, b) in enumerate(zip(ref[tid], got[tid])):
                if a[0] == "warned" or b[0] == "warned":
                    continue
                if a != b:
                    c = t["calls"][j]
                    raise _V("I-REPEAT", {"what": "a call made while another caller thread was using the same (shared, never to be "
                                                  "modified) operands returned a different result than the same call made alone",
                                          "thread": tid, "call": j, "fn": c.get("fn") or c.get("recipe", {}).get("k"),
                                          "alone": T.jhash(a), "threaded": T.jhash(b), "alone_kind": a[0],
                                          "threaded_kind": b[0], "switches": len(sw)})
        if _cheap_state(ctx, rm) != state0:
            raise _V("I-INPUT", {"what": "caller-owned values differ after the threaded calls", "changed": _diff(_cheap_state(ctx, rm), state0)[:4]})
    except _V as v:
        status = "violation"
        viol = {"property": "C18", "invariant": v.inv, "detail": v.detail, "step": None}
        if baton is not None:
            mat["threads"]["sw"] = baton.switches
            events_log = [baton.events, baton.switches]
        else:
            events_log = ["observer", v.detail.get("line_event"), v.detail.get("changed")]
    except Violation as v:
        status = "violation"
        viol = {"property": v.prop, "invariant": v.inv, "detail": v.detail, "step": None}
        if baton is not None:
            mat["threads"]["sw"] = baton.switches
            events_log = [baton.events, baton.switches]
    except HarnessBound as b:
        status, err = "bound", str(b)
    except BaseException as e:  # noqa
        if isinstance(e, (KeyboardInterrupt, SystemExit)):
            raise
        status = "harness_error"
        err = "".join(traceback.format_exception(type(e), e, e.__traceback__))[-3000:]
    sw = (mat.get("threads") or {}).get("sw") or []
    sig = hashlib.sha256(json.dumps(["threads18", spec.get("mode"), [[c.get("fn") or c.get("recipe", {}).get("k") for c in t.get("calls", [])] or "observe"
                                                                      for t in spec["tasks"]], min(len(sw), 12)]).encode()).hexdigest()[:16]
    for k, v in ctx.stats.items():
        if k.startswith(("ops_made", "observer_snapshots", "flat_roundtrips")):
            stats[k] += v
    return {"status": status, "violation": viol, "error": err, "events_digest": T.jhash(events_log), "n_events": len(sw),
            "stats": dict(stats), "fired": {}, "sched_sig": sig, "nontrivial": True, "program": mat, "culprits": [],
            "call_results": None, "results_digest": T.jhash(events_log[2:4]) if len(events_log) > 3 else None}


# ------------------------------------------------------------------------------------------ generation
def _shared_prefix(kname):
    """The shared operands of a threaded history on operator kind `kname`: the operator, right-hand sides, initial guesses
    and reusable algorithm objects -- plus the menu of operations that caller threads run on them."""
    from . import program18 as P
    slot, rec, rows, cols = P.KINDS[kname]
    dt = P.KIND_DTYPE.get(kname, "f8")
    arr, call, mk, S = P.arr, P.call, P.mk, P.S
    sq = rows == cols
    x, X, xr, XR = arr([cols], dt, 51), arr([cols, 2], dt, 52), arr([rows], dt, 53), arr([2, rows], dt, 69)
    R = {"k": "ref", "slot": slot}
    up = {"f4": "f8", "f8": "c16", "c16": "c16", "c8": "c16"}[dt]  # an operand of a wider dtype: the product promotes

    def reseed(o):
        if isinstance(o, dict):
            return {k: (v + 1000 if k == "seed" else reseed(v)) for k, v in o.items()}
        if isinstance(o, list):
            return [reseed(v) for v in o]
        return o

    # t2: ANOTHER operator of the same kind and shape (other entries) -- what a second caller thread typically works on
    steps = [mk(slot, rec), mk("t2", reseed(json.loads(json.dumps(rec))))]
    xu, xru = arr([cols, 2], up, 65), arr([rows], up, 66)
    menu = [("mv_promote", [call("matvec", A=S(slot), x=xu)]), ("rmv_promote", [call("rmatvec", A=S(slot), x=xru)]),
            ("t2_mv_promote", [call("matvec", A=S("t2"), x=xu)]), ("t2_rmv_promote", [call("rmatvec", A=S("t2"), x=xru)]),
            ("t2_mm", [call("matvec", A=S("t2"), x=X)]), ("t2_to_dense", [call("to_dense", A=S("t2"))]),
            ("to_dense", [call("to_dense", A=S(slot))]), ("flatten", [call("flatten", A=S(slot))]),
            ("mv", [call("matvec", A=S(slot), x=x)]), ("mm", [call("matvec", A=S(slot), x=X)]),
            ("rmv", [call("rmatvec", A=S(slot), x=xr)]), ("rmm", [call("rmatvec", A=S(slot), x=XR)]),
            ("T_use", [mk("t_T", {"k": "T", "of": R}), ]), ("H", [mk("t_H", {"k": "H", "of": R})]),
            ("neg", [mk("t_neg", {"k": "neg", "of": R})]), ("to_f4", [mk("t_to", {"k": "to", "of": R, "dtype": "f4"})]),
            ("ann_stiefel", [mk("t_st", {"k": "ann", "name": "Stiefel", "of": R})]),
            ("smul", [mk("t_sm", {"k": "smul", "c": -2.0, "of": R})]),
            ("svd", [call("svd", A=S(slot), k=1, which="LM")]), ("pinv_solve", [call("pinv_solve", A=S(slot), b=xr)])]
    if sq:
        P_ = P._psd(rec) if rec.get("k") != "ann" else rec
        steps += [mk("tp", P_),
                  {"op": "mkalg", "name": "t_cg", "cls": "CG", "kw": {"max_iters": 4, "x0": arr([cols], dt, 57)}},
                  {"op": "mkalg", "name": "t_cg2", "cls": "CG", "kw": {"max_iters": 3, "x0": arr([cols, 2], dt, 63)}},
                  {"op": "mkalg", "name": "t_gm", "cls": "GMRES", "kw": {"max_iters": 3, "x0": arr([cols], dt, 54)}},
                  {"op": "mkalg", "name": "t_la", "cls": "Lanczos", "kw": {"max_iters": 3, "start_vector": arr([cols], dt, 59)}},
                  {"op": "mkalg", "name": "t_ar", "cls": "Arnoldi", "kw": {"max_iters": 3, "start_vector": arr([cols], dt, 55)}},
                  {"op": "mkalg", "name": "t_hu", "cls": "Hutch", "kw": {"tol": 0.2, "max_iters": 2, "key": 7}},
                  {"op": "mkalg", "name": "t_au", "cls": "Auto", "kw": {"tol": 1e-4, "max_iters": 5}}]
        A = {"algobj": None}
        al = lambda n: {"algobj": n}  # noqa: E731
        menu += [("ann_sa", [mk("t_sa", {"k": "ann", "name": "SelfAdjoint", "of": R})]),
                 ("diag", [call("diag_exact", A=S(slot), k=0)]), ("diag_k1", [call("diag_default", A=S(slot), k=1)]),
                 ("trace", [call("trace_default", A=S(slot))]),
                 ("solve", [call("solve", A=S(slot), b=X)]), ("rsolve", [call("rsolve", A=S(slot), b=xr)]),
                 ("solve_gmres_obj", [call("solve", A=S(slot), b=x, alg=al("t_gm"))]),
                 ("inv_gmres_obj_apply", [call("inv", out="t_ig", A=S(slot), alg=al("t_gm"))]),
                 ("logdet", [call("logdet", A=S(slot))]), ("exp_apply", [call("unary_apply", A=S(slot), f="exp", x=x)]),
                 ("eig", [call("eig", A=S(slot), k=1, which="LM")]),
                 ("eig_arnoldi_obj", [call("eig", A=S(slot), k=1, which="LM", alg=al("t_ar"))]),
                 ("plu", [call("plu", A=S(slot))]),
                 ("pow2", [mk("t_p2", {"k": "matmul", "a": R, "b": R})]), ("add_self", [mk("t_add", {"k": "add", "a": R, "b": R})]),
                 ("kron_self", [mk("t_kr", {"k": "kron_fn", "a": R, "b": R})]),
                 # on the PSD-declared version of the operator
                 ("psd_cholesky", [call("cholesky", A=S("tp"))]),
                 ("psd_solve_cg_obj", [call("solve", A=S("tp"), b=x, alg=al("t_cg"))]),
                 ("psd_solve_cg_obj_block", [call("solve", A=S("tp"), b=X, alg=al("t_cg2"))]),
                 ("psd_solve_auto_obj", [call("solve", A=S("tp"), b=x, alg=al("t_au"))]),
                 ("psd_cg_direct", [call("cg", A=S("tp"), b=X, x0=arr([cols, 2], dt, 63), max_iters=3)]),
                 ("psd_sqrt_lanczos_obj", [call("unary_apply", A=S("tp"), f="sqrt", alg=al("t_la"), x=x)]),
                 ("psd_eig_lanczos_obj", [call("eig", A=S("tp"), k=1, which="LM", alg=al("t_la"))]),
                 ("psd_trace_hutch_obj", [call("trace_hutch", A=S("tp"), alg=al("t_hu"))]),
                 ("psd_diag_hutch_obj", [call("diag_hutch", A=S("tp"), k=0, alg=al("t_hu"))]),
                 ("psd_logdet", [call("logdet", A=S("tp"))]), ("psd_inv", [call("inv", A=S("tp"))]),
                 ("psd_isqrt_apply", [call("unary_apply", A=S("tp"), f="isqrt", x=x)])]
        del A
    for j, s in enumerate(steps):
        s["id"] = j
    return steps, menu


QUICK_KINDS = ["psd", "generic", "sum", "kron", "prod", "bd", "usercls", "sl", "kronsum", "kernel", "dense_c16", "tri"]


def _kinds(tier):
    from . import program18 as P
    ks = sorted(P.KINDS)
    if tier == "quick":
        return [k for k in QUICK_KINDS if k in P.KINDS]
    return ks


def _prog(steps, tasks, mode=None, name=None, **kw):
    th = dict({"tasks": tasks, "p": 0.0}, **kw)
    if mode:
        th["mode"] = mode
    return {"property": "C18", "run_seed": 0, "rng0": 5, "mode": "explicit", "config": {"threads": mode or "seeded"},
            "steps": json.loads(json.dumps(steps)), "threads": json.loads(json.dumps(th))}


def observer_programs(tier):
    """Every (operator kind, menu entry): the call under a continuous observer (every line of cola it executes)."""
    out = []
    for k in _kinds(tier):
        steps, menu = _shared_prefix(k)
        for name, items in menu:
            out.append({"name": "threads18-observer/%s/%s" % (name, k), "program": _prog(steps, [{"calls": items}], "observer")})
    return out


PARTNERS = ["mm", "psd_solve_cg_obj", "psd_trace_hutch_obj", "to_dense", "psd_sqrt_lanczos_obj", "solve_gmres_obj", "t2_mv_promote", "t2_mm"]
TWIN_PARTNER = {"mv_promote": "t2_mv_promote", "rmv_promote": "t2_rmv_promote", "mm": "t2_mm", "to_dense": "t2_to_dense",
                "t2_mv_promote": "mv_promote"}  # the same operation on the other operator of equal shape


def line_sweep_programs(tier, seed=0):
    """Thread 0: one menu entry; pre-empted once at a subset of its distinct lines (rotated by the seed) while thread 1 runs a
    partner entry on the same shared operands (the same algorithm objects included) to completion."""
    out = []
    kinds = ["psd", "generic", "sum", "sl"] if tier == "quick" else ["psd", "generic", "sum", "sl", "kron", "dense", "diag", "usercls", "prod", "bd", "kronsum",
                                                                "kernel", "sliced_full", "tridiag"]
    from . import program18 as P
    for k in kinds:
        if k not in P.KINDS:
            continue
        steps, menu = _shared_prefix(k)
        m = dict(menu)
        for name, items in menu:
            partners = [p for p in PARTNERS if p in m]
            if tier != "quick":
                h = int(hashlib.sha256(("%s:%s:%d" % (k, name, seed)).encode()).hexdigest()[:8], 16)
                partners = [partners[(h + j) % len(partners)] for j in range(3)]
            if tier == "quick":
                h = int(hashlib.sha256(("%s:%s:%d" % (k, name, seed)).encode()).hexdigest()[:8], 16)
                partners = [partners[h % len(partners)]]
                if name in partners or not name.startswith(("psd_", "solve", "inv", "eig", "mm", "rmm")):
                    partners = [p for p in ("psd_solve_cg_obj", ) if p in m] if name.endswith("_obj") or name.endswith("_block") else []
            if name in TWIN_PARTNER and TWIN_PARTNER[name] not in partners:
                partners = partners + [TWIN_PARTNER[name]]
            for pn in partners:
                out.append({"name": "threads18-line-sweep/%s<-%s/%s" % (name, pn, k),
                            "program": _prog(steps, [{"calls": items}, {"observe": 1, "calls": m[pn]}], "line_sweep",
                                             max_points=16 if tier == "quick" else 160, point_offset=seed)})
    return out


def gen(g, run_seed, tier="quick"):
    from . import program18 as P
    k = g.choice(_kinds(tier))
    steps, menu = _shared_prefix(k)
    ntask = g.choice([2, 2, 3])
    tasks = []
    for _ in range(ntask):
        items = []
        for _ in range(g.choice([1, 2, 2, 3])):
            items += g.choice(menu)[1]
        tasks.append({"calls": items})
    if g.random() < 0.5:
        tasks.append({"observe": g.choice([2, 4, 8])})
    p = _prog(steps, tasks, None, p=g.choice([0.003, 0.01, 0.03, 0.1]))
    p["run_seed"] = run_seed
    return p
