"""Caller threads under a deterministic scheduler (C17).

cola has no threads of its own, but its callers do: two threads of one process estimating traces of their own operators
with their own keys, a third one drawing from numpy.random.  "The same operator and key give bit-identical results" and
"the process-wide generator is neither read nor advanced" must hold for every interleaving of such threads, and a
process-wide resource that a routine parks its state in (a shared private generator that is re-seeded and then drawn
from, a module-level buffer, a save/restore bracket around the global state) breaks exactly there.

Mechanism (no hook in /repo): REAL threads, ONE baton.  Every task (a short list of cola calls on its own operands, or a
list of user draws from numpy.random) runs in its own thread; only the thread holding the baton runs, all others wait on a
condition variable.  `sys.settrace` in each thread makes every source line executed inside cola/ a pre-emption point;
user-draw tasks yield between draws.  At a pre-emption point the seeded scheduler decides whether the baton moves, and
to whom -- so one seed is one exactly repeatable interleaving, recorded as the list [(event number, next thread)], which
is the replay file (`sw`, explicit mode).  Oracle:
  * every call's result digest equals the digest of the same call executed alone, before the threads start (this also
    resolves dispatch signatures single-threaded: plum's lazy resolution is third-party code, not under test);
  * the values drawn by the user thread(s) equal the reference stream, and afterwards the global generator's state is the
    reference model's (I-RNG / I-DRAW as in the single-threaded histories).
Minimisation: switches are dropped while the violation persists.
"""
import hashlib
import json
import random
import sys
import threading
import traceback
from collections import Counter

MAX_EVENTS = 400_000
REPO_COLA = None  # set by run() (the generators below are imported by the coordinator, which never imports cola)


class Baton:
    def __init__(self, n, rng, p, explicit, record=False):
        self.lines = [] if record else None  # (file, line) of every pre-emption point, in order (calibration runs)
        self.cv = threading.Condition()
        self.n = n
        self.current = 0
        self.alive = [True] * n
        self.events = 0
        self.rng = rng
        self.p = p
        self.explicit = explicit  # {event number: target tid} | None
        self.switches = []
        self.aborted = None

    def wait_turn(self, tid):
        with self.cv:
            while self.current != tid and self.aborted is None:
                self.cv.wait()

    def yield_point(self, tid, where=None):
        self.events += 1
        if self.lines is not None:
            self.lines.append(where if where is None or tid == 0 else None)  # the sweep pre-empts thread 0 only
        if self.events > MAX_EVENTS:
            self.abort("event budget exceeded")
            raise SystemExit
        if self.explicit is not None:
            target = self.explicit.get(self.events)
        else:
            target = None
            if self.rng.random() < self.p:
                others = [t for t in range(self.n) if self.alive[t] and t != tid]
                if others:
                    target = self.rng.choice(others)
        if target is None or target == tid or not (0 <= target < self.n) or not self.alive[target]:
            return
        self.switches.append([self.events, target])
        with self.cv:
            self.current = target
            self.cv.notify_all()
            while self.current != tid and self.aborted is None:
                self.cv.wait()

    def finish(self, tid):
        with self.cv:
            self.alive[tid] = False
            if self.current == tid:
                nxt = [t for t in range(self.n) if self.alive[t]]
                self.current = nxt[0] if nxt else -1
            self.cv.notify_all()

    def abort(self, why):
        with self.cv:
            self.aborted = why
            self.cv.notify_all()


def _tracer(baton, tid):
    # Module bodies run under importlib's per-module lock, a REAL lock the baton does not own: a thread parked inside an import
    # while another thread imports the same module would deadlock the simulation (found: cold histories, lazily imported
    # cola.linalg.* modules).  While a thread executes a module body (or anything called from it) it is not pre-empted.
    importing = [0]

    def local(frame, event, arg):
        if event == "line" and not importing[0]:
            baton.yield_point(tid, (frame.f_code.co_filename, frame.f_lineno) if baton.lines is not None else None)
        return local

    def module_body(frame, event, arg):
        if event == "return":
            importing[0] -= 1
        return module_body

    def glob(frame, event, arg):
        if event == "call":
            if frame.f_code.co_name == "<module>":
                importing[0] += 1
                return module_body
            if frame.f_code.co_filename.startswith(REPO_COLA):
                return local
        return None

    return glob


def jhash(obj):
    return hashlib.sha256(json.dumps(obj, sort_keys=True, default=str).encode()).hexdigest()[:16]


def _outcome(fn, args):
    from .calls import call
    from .interp import _exc_kind, _raised_in_harness
    from .refmodel import result_digest
    try:
        res = call(fn, **args)
        return ["ok", result_digest(res)]
    except Exception as e:  # cola's own refusal is a result
        if _raised_in_harness(e):
            raise
        return [_exc_kind(e), type(e).__name__]


def run(program):
    """Execute one threaded history; returns a result record shaped like interp.run_program's."""
    global REPO_COLA
    from . import refmodel as rm
    from . import world
    from .interp import Ctx
    REPO_COLA = world.REPO.rstrip("/") + "/cola/"
    spec = program["threads"]
    if spec.get("mode") == "line_sweep":
        return _line_sweep(program)
    seed = program.get("run_seed", 0)
    ctx = Ctx({"property": "C17", "steps": [], "run_seed": seed, "config": {}})
    stats = Counter()
    status, viol, err = "ok", None, None
    events_log = []
    try:
        tasks = spec["tasks"]
        # operands (each task its own, unless it refers to a shared slot) and arguments
        pools = []
        shared = {k: ctx.builder.op(r) for k, r in (spec.get("shared") or {}).items()}
        for t in tasks:
            ops = dict(shared)
            for k, r in (t.get("ops") or {}).items():
                ops[k] = ctx.builder.op(r)
            pools.append(ops)

        def resolve(tid, args):
            out = {}
            for k, v in args.items():
                if isinstance(v, dict) and "slot" in v:
                    out[k] = pools[tid][v["slot"]]
                elif isinstance(v, dict) and "arr" in v:
                    out[k] = ctx.builder.array(v["arr"])
                else:
                    out[k] = v
            return out

        ctx.model.reseed(program.get("rng0", 3))
        # 1. every call alone (reference).  warm: in this process (also resolves dispatch single-threaded); cold: in a
        #    forked twin, so that the threaded phase below is the FIRST use of every routine in this process (first-use
        #    races: lazily filled module-level caches).  No baton switch ever happens inside plum's frames, so its lazy
        #    resolution still runs atomically.
        def reference():
            return [[_outcome(c["fn"], resolve(tid, c["args"])) for c in t.get("calls", [])] for tid, t in enumerate(tasks)]

        if spec.get("cold"):
            from .crashenum import _fork_run
            tw = _fork_run(lambda: {"status": "ok", "ref": reference()})
            if tw.get("status") != "ok":
                raise RuntimeError("reference twin failed: %r" % (tw, ))
            ref = tw["ref"]
            stats["thread_runs_cold"] = 1
        else:
            ref = reference()
        if not ctx.model.in_sync():
            raise _V("I-RNG", {"what": "process-wide NumPy generator state differs from the reference model after the "
                                       "single-threaded reference calls", "rng_touched_by": world.RNG_TOUCH[-6:]})
        # 2. the same calls from concurrent threads under the baton
        rng = random.Random("threads:%s" % seed)
        explicit = None
        if spec.get("sw") is not None:
            explicit = {int(e): int(t) for e, t in spec["sw"]}
        baton = Baton(len(tasks), rng, spec.get("p", 0.05), explicit, record=bool(spec.get("record_lines")))
        got = [[] for _ in tasks]
        draws = [[] for _ in tasks]
        errors = []

        def body(tid, t):
            try:
                baton.wait_turn(tid)
                if baton.aborted is not None:
                    return
                if "user_draws" in t:
                    for kind, size in t["user_draws"]:
                        baton.yield_point(tid)
                        u, m = ctx.model.draw(kind, size)  # global generator (the user's draw) and the reference stream
                        draws[tid].append([kind, size, rm.arr_digest(u), rm.arr_digest(m)])
                        baton.yield_point(tid)
                else:
                    sys.settrace(_tracer(baton, tid))
                    try:
                        for c in t.get("calls", []):
                            got[tid].append(_outcome(c["fn"], resolve(tid, c["args"])))
                    finally:
                        sys.settrace(None)
            except SystemExit:
                pass
            except BaseException as e:  # noqa
                errors.append("".join(traceback.format_exception(type(e), e, e.__traceback__))[-2500:])
                baton.abort("harness error in thread %d" % tid)
            finally:
                baton.finish(tid)

        ths = [threading.Thread(target=body, args=(tid, t), name="sim-thread-%d" % tid, daemon=True) for tid, t in enumerate(tasks)]
        for th in ths:
            th.start()
        for th in ths:
            th.join(200)
        if errors:
            raise RuntimeError(errors[0])
        if baton.aborted is not None or any(th.is_alive() for th in ths):
            status, err = "bound", baton.aborted or "threads did not finish"
        else:
            stats["thread_runs"] = 1
            stats["thread_preemption_points"] = baton.events
            stats["thread_switches"] = len(baton.switches)
            stats["thread_calls"] = sum(len(g) for g in got)
            for tid, t in enumerate(tasks):
                for kind, size, u, m in draws[tid]:
                    stats["user_draws"] += 1
                    if u != m:
                        raise _V("I-DRAW", {"what": "value drawn by a user thread from np.random differs from the reference stream "
                                                    "while cola calls ran in other threads", "thread": tid, "kind": kind,
                                            "rng_touched_by": world.RNG_TOUCH[-6:]})
                for j, (a, b) in enumerate(zip(ref[tid], got[tid])):
                    if a[0] == "warned" or b[0] == "warned":
                        continue
                    if a != b:
                        raise _V("I-KEYED", {"what": "a call made from one of several concurrent caller threads returned a different "
                                                     "result than the same call (same operator, same key) made alone",
                                             "thread": tid, "call": j, "fn": t["calls"][j]["fn"], "alone": jhash(a),
                                             "threaded": jhash(b), "alone_kind": a[0], "threaded_kind": b[0],
                                             "switches": len(baton.switches), "rng_touched_by": world.RNG_TOUCH[-6:]})
            if not ctx.model.in_sync():
                raise _V("I-RNG", {"what": "process-wide NumPy generator state differs from the reference model after the "
                                           "threaded calls", "rng_touched_by": world.RNG_TOUCH[-6:]})
        events_log = [baton.events, baton.switches, ref, got, draws]
        mat = json.loads(json.dumps(program))
        mat["threads"]["sw"] = baton.switches
        if baton.lines is not None:
            program["_lines"] = baton.lines
    except _V as v:
        status = "violation"
        viol = {"property": "C17", "invariant": v.inv, "detail": v.detail, "step": None}
        mat = json.loads(json.dumps(program))
        try:
            mat["threads"]["sw"] = baton.switches
            events_log = [baton.events, baton.switches]
        except NameError:
            pass
    except BaseException as e:  # noqa
        if isinstance(e, (KeyboardInterrupt, SystemExit)):
            raise
        status = "harness_error"
        err = "".join(traceback.format_exception(type(e), e, e.__traceback__))[-3000:]
        mat = program
    sw = (mat.get("threads") or {}).get("sw") or []
    sig = hashlib.sha256(json.dumps(["threads", [[c["fn"] for c in t.get("calls", [])] or "draws" for t in spec["tasks"]],
                                     min(len(sw), 12)]).encode()).hexdigest()[:16]
    return {"status": status, "violation": viol, "error": err, "events_digest": jhash(events_log), "n_events": len(sw),
            "stats": dict(stats), "fired": {}, "sched_sig": sig, "nontrivial": bool(sw), "program": mat, "culprits": [],
            "call_results": None, "results_digest": jhash(events_log[2:4]) if len(events_log) > 3 else None}


def _line_sweep(program, runner=None):
    """Single pre-emption at EVERY distinct source line of cola that the first thread's calls execute (first and last
    occurrence): thread 0 runs up to that line, thread 1 then runs its calls to completion, thread 0 resumes.  Systematic where
    the seeded schedules are sparse: a window of one line between two accesses to a shared resource is hit for certain."""
    from .crashenum import _fork_run
    run_ = runner or run
    base = json.loads(json.dumps(program))
    base["threads"].pop("mode", None)
    cal = json.loads(json.dumps(base))
    cal["threads"].update(sw=[], record_lines=True)

    def calibrate():
        r = run_(cal)
        r["_lines"] = cal.get("_lines") or []
        return r

    r0 = _fork_run(calibrate)  # every run of the sweep in its own forked child: nothing one run leaves behind reaches the next
    if r0.get("status") != "ok":
        return r0
    lines = [tuple(w) if w is not None else None for w in r0.pop("_lines")]
    first, last = {}, {}
    for i, w in enumerate(lines, 1):
        if w is None:
            continue
        first.setdefault(w, i)
        last[w] = i
    points = sorted(set(first.values()) | set(last.values()))
    cap = base["threads"].get("max_points", 400)
    if len(points) > cap:
        step = len(points) / float(cap)
        off = (base["threads"].get("point_offset", 0) % max(1, int(step)))
        points = sorted({points[min(len(points) - 1, int(i * step) + off)] for i in range(cap)})
    stats = Counter(r0["stats"])
    stats["thread_line_sweeps"] = 1
    stats["thread_distinct_lines_preempted"] = len(first)
    for e in points:
        p = json.loads(json.dumps(base))
        p["threads"]["sw"] = [[e, 1]]
        r = _fork_run(lambda p=p: run_(p))
        if r.get("status") in ("env_crash", "harness_error") and "stats" not in r:
            r = dict(r, stats={}, violation=None, program=p, events_digest=None)
        for k, v in (r.get("stats") or {}).items():
            stats[k] += v
        if r["status"] != "ok":
            r["stats"] = dict(stats)
            return r
    r0["stats"] = dict(stats)
    r0["program"] = program
    r0["sched_sig"] = jhash(["line_sweep", [[c.get("fn") or (c.get("recipe") or {}).get("k") for c in t.get("calls", [])]
                                            for t in base["threads"]["tasks"]]])
    r0["nontrivial"] = True
    return r0


class _V(Exception):
    def __init__(self, inv, detail):
        self.inv, self.detail = inv, detail


# ------------------------------------------------------------------------------------------ generation
def _operand(g, dt=None):
    n = g.choice([3, 4, 5, 6])
    dt = dt or g.choice(["f8", "f8", "f4", "c16"])
    s = g.randrange(1 << 20)
    kind = g.choice(["dense", "generic", "generic", "sum", "kron", "blockdiag", "diag", "mid", "mid"])
    P = lambda r: {"k": "ann", "name": "PSD", "of": r}  # noqa: E731
    if kind == "mid":  # start vectors / probe blocks beyond the sizes at which an implementation may switch strategy
        n = g.choice([1100, 1500])
        return P({"k": g.choice(["diag", "tridiag"]), "n": n, "dtype": dt, "seed": s, **({"pos": True} if True else {})})
    if kind in ("dense", "generic"):
        return P({"k": kind, "n": n, "dtype": dt, "seed": s, "sym": "psd"})
    if kind == "diag":
        return P({"k": "diag", "n": n, "dtype": dt, "seed": s, "pos": True})
    if kind == "sum":
        return P({"k": "sum", "args": [P({"k": "generic", "n": n, "dtype": dt, "seed": s, "sym": "psd"}),
                                        P({"k": "diag", "n": n, "dtype": dt, "seed": s + 1, "pos": True})]})
    if kind == "kron":
        return P({"k": "kron", "args": [P({"k": "generic", "n": 2, "dtype": dt, "seed": s, "sym": "psd"}),
                                         P({"k": "dense", "n": 2, "dtype": dt, "seed": s + 1, "sym": "psd"})]})
    return P({"k": "blockdiag", "args": [P({"k": "generic", "n": 2, "dtype": dt, "seed": s, "sym": "psd"}),
                                          P({"k": "generic", "n": 2, "dtype": dt, "seed": s + 1, "sym": "psd"})]})


ROUTINES = [
    ("hutch", lambda g: {"tol": 0.2, "max_iters": g.choice([1, 2, 3]), "k": g.choice([0, 0, 1]), "rand": g.choice(["normal", "rademacher"])}),
    ("diag_hutch", lambda g: {"tol": 0.2, "max_iters": 2, "k": 0}),
    ("trace_hutch", lambda g: {"tol": 0.2, "max_iters": 2, "rand": g.choice(["normal", "rademacher"])}),
    ("lanczos", lambda g: {"max_iters": g.choice([2, 3])}),
    ("arnoldi", lambda g: {"max_iters": g.choice([2, 3])}),
    ("power_iteration", lambda g: {"max_iter": g.choice([2, 4])}),
    ("nystrom", lambda g: {"rank": 2}),
    ("randomized_svd", lambda g: {"rank": 2}),
    ("lobpcg", lambda g: {"max_iters": 2}),
    ("slq", lambda g: {"fun": g.choice(["log", "exp"]), "max_iters": 3, "vtol": 0.6}),
    ("eig_lanczos", lambda g: {"k": 1, "which": "LM", "max_iters": 3}),
    ("eig_arnoldi", lambda g: {"k": 1, "which": "LM", "max_iters": 3}),
]
KEYED_BY_ARG = {"randomized_svd"}


def _call(g, slot, fixed=None):
    fn, mk = fixed or g.choice(ROUTINES)
    a = dict({"A": {"slot": slot}}, **mk(g))
    if fn not in KEYED_BY_ARG:
        key = g.choice([None, 0, 1, 2, 3, 5, 7, 42, 12345])
        if key is not None:
            a["key"] = key
    return {"fn": fn, "args": a}


def gen(g, run_seed, tier="quick", fixed=None, p=None):
    ntask = g.choice([2, 2, 3])
    tasks = []
    shared = {}
    if g.random() < 0.25:
        shared["S"] = _operand(g)
    for _ in range(ntask):
        slot = "S" if shared and g.random() < 0.5 else "A"
        t = {"ops": {} if slot == "S" else {"A": _operand(g)}, "calls": [_call(g, slot, fixed) for _ in range(g.choice([1, 1, 2]))]}
        tasks.append(t)
    if g.random() < 0.6:
        tasks.append({"user_draws": [[g.choice(["randn", "rand", "normal", "randint"]), g.choice([1, 2, 3])]
                                     for _ in range(g.choice([2, 4, 6]))]})
    return {"property": "C17", "run_seed": run_seed, "rng0": g.randrange(2**32), "tier": tier, "config": {"threads": True},
            "threads": {"tasks": tasks, "shared": shared, "p": p if p is not None else g.choice([0.01, 0.03, 0.1, 0.3]),
                        "cold": g.random() < 0.5}}


def line_sweep_programs():
    """Every routine (thread 0, key 7) pre-empted once at every distinct line by every core routine (thread 1, key 11)."""
    out = []
    g = random.Random("line-sweep")
    core = [r for r in ROUTINES if r[0] in ("hutch", "lanczos", "nystrom", "lobpcg")]
    for r in ROUTINES:
        for other in core:
            A, B = _operand(g, "f8"), _operand(g, "f8")
            c1, c2 = _call(g, "A", r), _call(g, "A", other)
            if r[0] not in KEYED_BY_ARG:
                c1["args"]["key"] = 7
            if other[0] not in KEYED_BY_ARG:
                c2["args"]["key"] = 11
            for variant in ("warm", "cold", "cold-mid"):
                if variant == "cold-mid":  # both threads on operands of the same mid size, same key: same (key, n, dtype)
                    if r[0] in ("nystrom", "randomized_svd", "lobpcg", "slq") or other[0] != "lanczos" and r[0] != other[0]:
                        continue
                    M1 = {"k": "ann", "name": "PSD", "of": {"k": "diag", "n": 1100, "dtype": "f8", "seed": 1, "pos": True}}
                    M2 = {"k": "ann", "name": "PSD", "of": {"k": "tridiag", "n": 1100, "dtype": "f8", "seed": 2, "symm": True}}
                    d1, d2 = json.loads(json.dumps(c1)), json.loads(json.dumps(c2))
                    if "key" in d1["args"]:
                        d2["args"]["key"] = d1["args"]["key"]
                    tasks = [{"ops": {"A": M1}, "calls": [d1]}, {"ops": {"A": M2}, "calls": [d2]}]
                else:
                    tasks = [{"ops": {"A": A}, "calls": [c1]}, {"ops": {"A": B}, "calls": [c2]},
                             {"user_draws": [["randn", 2], ["rand", 1]]}]
                prog = {"property": "C17", "run_seed": 0, "rng0": 5, "config": {"threads": "line_sweep"},
                        "threads": {"mode": "line_sweep", "shared": {}, "p": 0.0, "cold": variant != "warm", "tasks": tasks}}
                out.append({"name": "threads-line-sweep/%s/%s<-%s" % (variant, r[0], other[0]), "program": prog})
    return out


def sweep_programs(verif_seed, per_routine):
    """Every routine against itself and against the next one in the list (different operators, different keys), with a user
    thread drawing from np.random, `per_routine` seeded interleavings each."""
    out = []
    for i, r in enumerate(ROUTINES):
        for other in (r, ROUTINES[(i + 1) % len(ROUTINES)]):
            for j in range(per_routine):
                seed = int(hashlib.sha256(("thr:%d:%s:%s:%d" % (verif_seed, r[0], other[0], j)).encode()).hexdigest()[:15], 16)
                g = random.Random(seed)
                prog = gen(g, seed, p=g.choice([0.03, 0.1, 0.3]))
                A, B = _operand(g, "f8"), _operand(g, "f8")
                c1, c2 = _call(g, "A", r), _call(g, "A", other)
                if "key" in c1["args"] or r[0] in KEYED_BY_ARG:
                    c1["args"]["key"] = 7
                    if r[0] in KEYED_BY_ARG:
                        c1["args"].pop("key")
                if other[0] not in KEYED_BY_ARG:
                    c2["args"]["key"] = 11
                if r[0] not in KEYED_BY_ARG:
                    c1["args"]["key"] = 7
                prog["threads"]["tasks"] = [{"ops": {"A": A}, "calls": [c1, dict(c1)]}, {"ops": {"A": B}, "calls": [c2, dict(c2)]},
                                            {"user_draws": [["randn", 2], ["rand", 1], ["randn", 3]]}]
                prog["threads"]["shared"] = {}
                out.append({"name": "threads/%s+%s/%d" % (r[0], other[0], j), "program": prog})
    return out


# ------------------------------------------------------------------------------------------ minimisation
def minimise(pool, program, res, budget=60):
    """Drop switches (and then whole tasks' second calls) while the same invariant is violated."""
    inv = res["violation"]["invariant"]
    best_p, best_r = res.get("program") or program, res
    runs = 0

    def attempt(p):
        nonlocal runs
        runs += 1
        r = pool.run_one({"id": -2, "kind": "program", "program": p, "deadline": 240})
        if r.get("status") == "violation" and (r.get("violation") or {}).get("invariant") == inv:
            return r
        return None

    sw = list((best_p.get("threads") or {}).get("sw") or [])
    chunk = max(1, len(sw) // 2)
    while chunk >= 1 and runs < budget and sw:
        i, progress = 0, False
        while i < len(sw) and runs < budget:
            cand = sw[:i] + sw[i + chunk:]
            p = json.loads(json.dumps(best_p))
            p["threads"]["sw"] = cand
            r = attempt(p)
            if r is not None:
                sw, best_p, best_r, progress = cand, r.get("program") or p, r, True
                sw = list(best_p["threads"].get("sw") or [])
            else:
                i += chunk
        if not progress:
            chunk //= 2
    return best_p, best_r
