"""Minimise a failing history while the same violation class (property, invariant) persists."""
import copy


def same_class(res, cls):
    v = res.get("violation")
    return res.get("status") == "violation" and v and (v["property"], v["invariant"]) == cls


class Minimiser:
    def __init__(self, pool, budget=400, deadline=60):
        self.pool = pool
        self.budget = budget
        self.used = 0
        self.deadline = deadline

    def test_many(self, progs, cls):
        """Run candidates in parallel; return list of (prog, result) that still fail the same way."""
        progs = progs[:max(0, self.budget - self.used)]
        if not progs:
            return []
        self.used += len(progs)
        out = {}

        def on(job, res):
            out[job["id"]] = res

        jobs = [{"id": i, "kind": "program", "program": p, "deadline": self.deadline} for i, p in enumerate(progs)]
        self.pool.run(iter(jobs), on)
        good = []
        for i, p in enumerate(progs):
            r = out.get(i)
            if r is not None and same_class(r, cls):
                good.append((p, r))
        return good

    def minimise(self, prog, res):
        v = res["violation"]
        cls = (v["property"], v["invariant"])
        cur, cur_res = prog, res
        # 1. ddmin over steps
        n = 2
        while len(cur["steps"]) >= 2 and self.used < self.budget:
            steps = cur["steps"]
            chunk = max(1, len(steps) // n)
            cands = []
            for i in range(0, len(steps), chunk):
                c = copy.deepcopy(cur)
                c["steps"] = steps[:i] + steps[i + chunk:]
                if c["steps"]:
                    cands.append(c)
            good = self.test_many(cands, cls)
            if good:
                cur, cur_res = min(good, key=lambda pr: len(pr[0]["steps"]))
                cur = self._trim(cur, cur_res)
                n = max(n - 1, 2)
            else:
                if chunk == 1:
                    break
                n = min(len(steps), n * 2)
        # 2. drop callback actions / faults / menus one at a time
        changed = True
        while changed and self.used < self.budget:
            changed = False
            cands = []
            for si, st in enumerate(cur["steps"]):
                x = st.get("x") or {}
                for key in list((x.get("cb") or {}).keys()):
                    c = copy.deepcopy(cur)
                    del c["steps"][si]["x"]["cb"][key]
                    cands.append(c)
                for key in ("alloc", "pbar_fail", "clock"):
                    if key in x:
                        c = copy.deepcopy(cur)
                        del c["steps"][si]["x"][key]
                        cands.append(c)
                if st.get("menu"):
                    c = copy.deepcopy(cur)
                    used = sorted({a[1] for a in (x.get("cb") or {}).values() if a[0] == "reenter"})
                    c["steps"][si]["menu"] = [m for i, m in enumerate(st["menu"]) if i in used]
                    remap = {old: new for new, old in enumerate(used)}
                    for a in (c["steps"][si].get("x", {}).get("cb") or {}).values():
                        if a[0] == "reenter":
                            a[1] = remap[a[1]]
                    if len(c["steps"][si]["menu"]) < len(st["menu"]):
                        if not c["steps"][si]["menu"]:
                            del c["steps"][si]["menu"]
                        cands.append(c)
            good = self.test_many(cands, cls)
            if good:
                cur, cur_res = good[0]
                cur = self._trim(cur, cur_res)
                changed = True
        # 3. move a remaining alloc fault to the earliest index that still fails
        for si, st in enumerate(cur["steps"]):
            k = ((st.get("x") or {}).get("alloc") or {}).get("k")
            if k and self.used < self.budget:
                cands = []
                for kk in sorted({0, k // 4, k // 2, k - 1}):
                    if 0 <= kk < k:
                        c = copy.deepcopy(cur)
                        c["steps"][si]["x"]["alloc"]["k"] = kk
                        cands.append(c)
                good = self.test_many(cands, cls)
                if good:
                    cur, cur_res = min(good, key=lambda pr: pr[0]["steps"][si]["x"]["alloc"]["k"])
        return cur, cur_res

    @staticmethod
    def _trim(prog, res):
        """Replace by the materialised program returned by the run (truncated after the failing step)."""
        p = res.get("program")
        return p if p else prog
