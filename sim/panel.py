"""C17, third clause: the Hutchinson estimator is unbiased (fixed key panel, runs in a pristine child).

(i)  Rademacher probes on a Diagonal operator, k = 0: the estimate equals the diagonal (every probe
     contributes exactly d * z^2 = d).
(ii) For a fixed panel of K keys per configuration: |mean over keys - true k-th diagonal| <= T * s / sqrt(K)
     coordinate-wise, s = empirical standard deviation over the panel; returned length is n - |k|.
     tol is the smallest admitted (0.002); a configuration in which any call nevertheless stopped before
     max_iters (optional stopping, e.g. all Rademacher probes agree => stderr 0) is not judged.
Seeded sampling of a pure function of the key -- not simulation; evaluated here so C17 is decided whole.
"""
import numpy as np

from . import world  # noqa
from .interp import Ctx

K = 256
T = 7.0


def _rtol(est):
    """'Exact' up to the rounding of a running sum of bs <= 100 equal terms in the estimate's own precision."""
    dt = np.asarray(est).dtype
    return max(1e-11, 256 * float(np.finfo(dt).eps)) if np.issubdtype(dt, np.inexact) else 1e-11


def run_panel(job):
    """An exception raised by cola for a configuration is a refusal, not an estimate: nothing to judge about its statistics (and not
    a harness failure either); counted as `panel_configs_raised_by_cola`."""
    from .interp import _raised_in_harness
    try:
        return _run_panel(job)
    except Exception as e:  # noqa
        if _raised_in_harness(e):
            raise
        return {"status": "ok", "stats": {"panel_configs": 1, "panel_configs_raised_by_cola": 1,
                                          "exc:" + type(e).__name__: 1}, "fired": {}, "violation": None}


def _run_panel(job):
    from cola.linalg.trace.diagonal_estimation import hutchinson_diag_estimate
    cfg = job["config"]
    ctx = Ctx({"property": "C17", "steps": [], "run_seed": 0, "config": {}})
    A = ctx.builder.op(cfg["recipe"])
    ctx.harness_depth += 1
    dense = np.asarray(A.to_dense())
    ctx.harness_depth -= 1
    k, rand, mi = cfg["k"], cfg["rand"], cfg["max_iters"]
    K, T = cfg.get("K", globals()["K"]), cfg.get("T", globals()["T"])
    n = A.shape[0]
    true = np.diag(dense, k)
    stats = {"panel_calls": 0, "panel_configs": 1}
    viol = None
    if cfg.get("via") == "dispatch":
        import cola
        from cola.linalg import Auto, Hutch

        def estimate(key, tol=cfg.get("tol", 0.002)):
            kw = dict(tol=tol, max_iters=mi, rand=rand, key=key)
            alg = Auto(**kw) if cfg.get("alg") == "Auto" else Hutch(**kw)
            stats["panel_calls"] += 1
            if cfg["what"] == "trace":
                return np.asarray(cola.linalg.trace(A, alg)).reshape(1)
            return np.asarray(cola.linalg.diag(A, k, alg))

        if cfg["what"] == "trace":
            true = np.asarray(np.trace(dense)).reshape(1)
        stats["panel_structured_configs"] = 1
        try:
            estimate(0)
        except (AssertionError, NotImplementedError):  # the rule refuses this offset for this structure: nothing to judge
            stats["panel_configs_refused_by_cola"] = 1
            return {"status": "ok", "stats": stats, "fired": {}, "violation": None}
        if cfg.get("exact"):
            for key in range(8):
                est = estimate(key)
                if est.shape != true.shape or not np.allclose(est, true, rtol=_rtol(est), atol=0):
                    viol = {"what": "Rademacher Hutchinson estimate (through cola.linalg.%s on a structured operator) of a "
                                    "diagonal operator is not exact" % cfg["what"], "structure": cfg["name"], "key": key,
                            "max_err": float(np.max(np.abs(est - true))) if est.shape == true.shape else None}
                    break
        else:
            ests = []
            for key in range(K):
                est = estimate(key)
                if est.shape != true.shape:
                    viol = {"what": "estimate has wrong length", "shape": list(est.shape), "expected": list(true.shape)}
                    break
                ests.append(est)
            if viol is None:
                E = np.stack(ests)
                mean, s = E.mean(0), E.std(0, ddof=1)
                err = np.abs(mean - true)
                bound = T * s / np.sqrt(K) + 1e-9 * (1 + np.abs(true))
                bad = np.nonzero(err > bound)[0]
                stats["panel_max_z"] = float(np.max(err / np.maximum(s / np.sqrt(K), 1e-300)))
                if len(bad):
                    i = int(bad[0])
                    viol = {"what": "mean over keys of cola.linalg.%s(A, Hutch(key)) deviates from the true value by more than "
                                    "%g standard errors" % (cfg["what"], T), "structure": cfg["name"], "coordinate": i,
                            "mean": complex(mean[i]).real, "true": complex(true[i]).real, "stderr": float(s[i] / np.sqrt(K)),
                            "z": float(err[i] / max(s[i] / np.sqrt(K), 1e-300))}
    elif cfg.get("exact"):
        for key in range(8):
            est, _ = hutchinson_diag_estimate(A, k=0, tol=0.002, max_iters=mi, rand="rademacher", key=key)
            stats["panel_calls"] += 1
            if est.shape != true.shape or not np.allclose(est, true, rtol=_rtol(est), atol=0):  # exact: d * z^2 = d
                viol = {"what": "Rademacher Hutchinson estimate of a diagonal operator's main diagonal is not exact",
                        "key": key, "max_err": float(np.max(np.abs(est - true))) if est.shape == true.shape else None}
                break
    else:
        ests = []
        early = 0
        for key in range(K):
            est, info = hutchinson_diag_estimate(A, k=k, tol=0.002, max_iters=mi, rand=rand, key=key)
            stats["panel_calls"] += 1
            if info["iterations"] != max(1, mi) + 1:
                early += 1
            if est.shape != (n - abs(k), ):
                viol = {"what": "estimate has wrong length", "shape": list(est.shape), "expected": n - abs(k)}
                break
            ests.append(np.asarray(est))
        if viol is None and early:
            # the relative-stderr rule stopped some calls before max_iters: the result is then a
            # sequential (optionally stopped) estimate, for which unbiasedness is not claimed
            stats["panel_configs_skipped_early_stop"] = 1
        elif viol is None:
            E = np.stack(ests)
            mean = E.mean(0)
            s = E.std(0, ddof=1)
            err = np.abs(mean - true)
            bound = T * s / np.sqrt(K) + 1e-9 * (1 + np.abs(true))
            bad = np.nonzero(err > bound)[0]
            stats["panel_max_z"] = float(np.max(err / np.maximum(s / np.sqrt(K), 1e-300))) if len(err) else 0.0
            if len(bad):
                i = int(bad[0])
                viol = {"what": "Hutchinson panel mean deviates from the true diagonal by more than %g standard errors" % T,
                        "coordinate": i, "mean": complex(mean[i]).real, "true": complex(true[i]).real,
                        "stderr": float(s[i] / np.sqrt(K)), "z": float(err[i] / max(s[i] / np.sqrt(K), 1e-300))}
    res = {"status": "ok", "stats": stats, "fired": {}, "violation": None}
    if viol is not None:
        res["status"] = "violation"
        res["violation"] = {"property": "C17", "invariant": "I-UNBIASED", "detail": viol, "step": None}
        res["program"] = {"property": "C17", "panel": cfg}
    return res
