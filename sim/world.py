"""Seams, stubs and the NumPy-backend shim.  Imported by the zygote BEFORE cola.

Everything here is harness-side.  Nothing in /repo is modified; cola's own modules are
imported from $VERIF_REPO (default /repo) and only module-level *names* that are seams are
rebound (clock, progress bar, the four primitives the NumPy backend lacks).
"""
import os
import sys

REPO = os.environ.get("VERIF_REPO", "/repo")
HERE = os.path.dirname(os.path.abspath(__file__))
BUILD = os.path.join(os.path.dirname(HERE), "build")

for _v in ("OPENBLAS_NUM_THREADS", "OMP_NUM_THREADS", "MKL_NUM_THREADS"):
    if os.environ.get(_v) != "1":
        raise RuntimeError(f"{_v} must be pinned to 1 before numpy is imported (S8)")

if sys.path[0] != REPO:
    sys.path.insert(0, REPO)
if BUILD not in sys.path:
    sys.path.append(BUILD)

import logging  # noqa: E402

# Environment seam: the number of usable CPUs is an input of the process environment that library code can
# read (os.sched_getaffinity / os.cpu_count).  The cross-process phase runs the same histories under two
# different simulated CPU counts (VERIF_FAKE_CPUS), like it does for PYTHONHASHSEED.
_FAKE_CPUS = os.environ.get("VERIF_FAKE_CPUS")
if _FAKE_CPUS:
    _k = max(1, int(_FAKE_CPUS))
    os.sched_getaffinity = lambda pid=0, _k=_k: set(range(_k))
    os.cpu_count = lambda _k=_k: _k
    if hasattr(os, "process_cpu_count"):
        os.process_cpu_count = lambda _k=_k: _k
    import multiprocessing as _mp
    _mp.cpu_count = lambda _k=_k: _k

import numpy as np  # noqa: E402

try:
    import simalloc  # noqa: E402
    simalloc.install()
    HAVE_SIMALLOC = True
except Exception:  # pragma: no cover - extension missing: fault kind disabled, evidence says so
    simalloc = None
    HAVE_SIMALLOC = False


class _NoAlloc:
    def arm(self, k, minb=0):
        pass

    def disarm(self):
        return (0, -1, -1)

    def pause(self):
        pass

    def resume(self):
        pass

    def count(self):
        return 0


ALLOC = simalloc if HAVE_SIMALLOC else _NoAlloc()

# ----------------------------------------------------------------------------------------
# S1: attribution wrappers around the global generator's entry points (diagnostic only; the
# oracle reads the raw state of np.random.mtrand._rand and never depends on these).
# ----------------------------------------------------------------------------------------
RNG_TOUCH = []  # (function name, filename:lineno of caller) for calls coming from cola code
_RNG_NAMES = ("seed", "get_state", "set_state", "randn", "rand", "normal", "randint", "random", "standard_normal",
              "uniform", "permutation", "shuffle", "choice", "random_sample")


def _wrap_rng(name):
    orig = getattr(np.random, name)

    def wrapper(*a, **k):
        f = sys._getframe(1)
        fn = f.f_code.co_filename
        if "/cola/" in fn and len(RNG_TOUCH) < 64:
            RNG_TOUCH.append((name, f"{os.path.relpath(fn, REPO) if fn.startswith(REPO) else fn}:{f.f_lineno}"))
        return orig(*a, **k)

    wrapper.__name__ = name
    wrapper.__wrapped__ = orig
    return wrapper


for _n in _RNG_NAMES:
    setattr(np.random, _n, _wrap_rng(_n))

# ----------------------------------------------------------------------------------------
# import the system under test (real code, current working tree)
# ----------------------------------------------------------------------------------------
import optree  # noqa: E402
import cola  # noqa: E402
import cola.linalg  # noqa: E402
from cola.backends import np_fns  # noqa: E402
import cola.utils.torch_tqdm as _tt  # noqa: E402

if not os.path.abspath(cola.__file__).startswith(os.path.abspath(REPO) + os.sep):
    raise RuntimeError(f"cola imported from {cola.__file__}, expected under {REPO}")

# ----------------------------------------------------------------------------------------
# S4 clock / S5 progress bar + logging  (stubs)
# ----------------------------------------------------------------------------------------


class SimClock:
    """Module-like object standing in for `time` inside cola.utils.torch_tqdm."""
    def __init__(self):
        self.now = 1_000_000.0
        self.reads = 0
        self.hook = None  # called on every read (scheduler may jump the clock)

    def time(self):
        self.reads += 1
        if self.hook is not None:
            self.hook(self)
        return self.now

    def advance(self, dt):
        self.now += dt


CLOCK = SimClock()
_tt.time = CLOCK


# ----------------------------------------------------------------------------------------
# S9: ambient nondeterminism.  Operating-system entropy (np.random.RandomState(None), default_rng(), SeedSequence(),
# os.urandom, secrets, random.SystemRandom), Python's own global `random` generator and the wall clocks of the `time`
# module are sources a routine could seed itself from; inside a simulated history they are all functions of the run seed,
# so that a history in which cola does so still replays exactly (the violation is then found by I-KEYED / I-RNG as usual).
# Installed per run (enter_simulation), never in the zygote parent.
# ----------------------------------------------------------------------------------------
class SimEntropy:
    def __init__(self):
        self.seed = 0
        self.n = 0
        self.touch = []  # (kind, file:line) of reads coming from cola code

    def reset(self, seed):
        self.seed, self.n, self.touch = seed, 0, []

    def _note(self, kind):
        self.n += 1
        f = sys._getframe(2)
        depth = 0
        while f is not None and depth < 12:
            fn = f.f_code.co_filename
            if "/cola/" in fn and "/verif/" not in fn:
                if len(self.touch) < 64 and (not self.touch or self.touch[-1][1] != f"{os.path.relpath(fn, REPO) if fn.startswith(REPO) else fn}:{f.f_lineno}"):
                    self.touch.append((kind, f"{os.path.relpath(fn, REPO) if fn.startswith(REPO) else fn}:{f.f_lineno}"))
                break
            f = f.f_back
            depth += 1

    def bytes(self, n, kind="urandom"):
        import hashlib
        self._note(kind)
        out = b""
        i = 0
        while len(out) < n:
            out += hashlib.sha256(b"entropy:%d:%d:%d" % (self.seed, self.n, i)).digest()
            i += 1
        return out[:n]

    def randbits(self, k):
        return int.from_bytes(self.bytes((k + 7) // 8, "randbits"), "big") >> ((-k) % 8)


ENTROPY = SimEntropy()
_SIM_ENTERED = [False]


def enter_simulation(seed):
    """Called at the start of every simulated history (forked child or fresh interpreter)."""
    import random as _random
    import time as _time

    import numpy.random.bit_generator as _bg
    ENTROPY.reset(int(seed) & ((1 << 64) - 1))
    _random.seed(ENTROPY.seed)
    if _SIM_ENTERED[0]:
        return
    _SIM_ENTERED[0] = True
    _bg.randbits = ENTROPY.randbits
    os.urandom = lambda n: ENTROPY.bytes(n, "os.urandom")
    _random._urandom = os.urandom
    if hasattr(os, "getrandom"):
        os.getrandom = lambda n, flags=0: ENTROPY.bytes(n, "os.getrandom")
    # wall clocks outside cola.utils.torch_tqdm (which reads CLOCK.time(), a scheduler yield point): plain reads of the
    # simulated clock, no yield
    _time.time = lambda: CLOCK.now
    _time.time_ns = lambda: int(CLOCK.now * 1e9)
    for _n in ("monotonic", "perf_counter", "process_time", "thread_time"):
        setattr(_time, _n, lambda: CLOCK.now - 1_000_000.0)
        setattr(_time, _n + "_ns", lambda: int((CLOCK.now - 1_000_000.0) * 1e9))


class FakeBar:
    """In-memory stand-in for tqdm(...)."""
    instances = 0
    fail_hook = None  # callable(kind) -> bool : raise OSError(EPIPE) now?
    updates = 0

    def __init__(self, *a, **k):
        FakeBar.instances += 1
        self.n = 0.0
        self.closed = False

    def update(self, x=1):
        FakeBar.updates += 1
        if FakeBar.fail_hook is not None and FakeBar.fail_hook("update"):
            raise BrokenPipeError(32, "Broken pipe (injected)")
        self.n += x

    def close(self):
        if FakeBar.fail_hook is not None and FakeBar.fail_hook("close"):
            raise BrokenPipeError(32, "Broken pipe (injected)")
        self.closed = True


_tt.tqdm = FakeBar


class _Capture(logging.Handler):
    def __init__(self):
        super().__init__()
        self.count = 0

    def emit(self, record):
        self.count += 1


LOGCAP = _Capture()
_root = logging.getLogger()
for _h in list(_root.handlers):
    _root.removeHandler(_h)
_root.addHandler(LOGCAP)
_root.setLevel(logging.WARNING)

# ----------------------------------------------------------------------------------------
# NumPy-backend shim (stub; prescribed by properties.jsonl `hook_needed`)
# ----------------------------------------------------------------------------------------
SHIM_USED = {"vmap": 0, "linear_transpose": 0, "sparse_csr": 0, "to_np": 0}


def _is_batched_leaf(x):
    return isinstance(x, np.ndarray) and x.ndim > 0


def shim_vmap(fun, in_axes=0, out_axes=0):
    def batched(*args):
        SHIM_USED["vmap"] += 1
        leaves, treedef = optree.tree_flatten(args, namespace="cola")
        B = None
        for leaf in leaves:
            if _is_batched_leaf(leaf):
                B = leaf.shape[0]
                break
        if B is None:
            raise ValueError("shim vmap: no batched array argument")
        outs = []
        for i in range(B):
            sl = [leaf[i] if _is_batched_leaf(leaf) else leaf for leaf in leaves]
            a = optree.tree_unflatten(treedef, sl)
            outs.append(fun(*a))
        flat = [optree.tree_flatten(o, namespace="cola") for o in outs]
        tdef = flat[0][1]
        nl = len(flat[0][0])
        stacked = [np.stack([np.asarray(f[0][j]) for f in flat]) for j in range(nl)]
        return optree.tree_unflatten(tdef, stacked)

    return batched


def shim_linear_transpose(fun, primals, duals):
    SHIM_USED["linear_transpose"] += 1
    n = primals.shape[0]
    eye = np.eye(n, dtype=primals.dtype)
    M = fun(eye)  # (m, n): products with the canonical vectors
    return M.T @ duals


def shim_sparse_csr(indptr, indices, data, shape):
    SHIM_USED["sparse_csr"] += 1
    from scipy.sparse import csr_array
    return csr_array((data, indices, indptr), shape=shape)


def shim_to_np(x):
    SHIM_USED["to_np"] += 1
    return np.asarray(x)


np_fns.vmap = shim_vmap
np_fns.linear_transpose = shim_linear_transpose
np_fns.sparse_csr = shim_sparse_csr
np_fns.to_np = shim_to_np

# pass-through observer around the backend's keyed draw: records the allocation-counter interval
# spent inside it (reach probe "alloc_fail_inside_rng_section" only; no oracle depends on it)
_SECTIONS = []
_orig_randn = np_fns.randn


def _randn_observed(*a, **k):
    c0 = ALLOC.count()
    try:
        return _orig_randn(*a, **k)
    finally:
        if len(_SECTIONS) < 4096:
            _SECTIONS.append((c0, ALLOC.count()))


_randn_observed.__wrapped__ = _orig_randn
np_fns.randn = _randn_observed


def reset_sections():
    del _SECTIONS[:]


def rng_sections():
    return list(_SECTIONS)


import gc as _gc  # noqa: E402

# the shared default `Auto()` instances reachable from the public signatures (alg=Auto()): caller-visible
# objects that no call may alter (S7)
AUTO_DEFAULTS = [o for o in _gc.get_objects() if type(o).__name__ == "Auto" and type(o).__module__.startswith("cola.")]

USER_FN_HOOK = None  # set per run: user functions handed to cola (unary f, Kernel fn) yield to the scheduler


def user_fn_yield():
    if USER_FN_HOOK is not None:
        USER_FN_HOOK()


CRUMB_FD = None  # set by the zygote child: breadcrumbs written before a fault is armed


def crumb(obj):
    if CRUMB_FD is not None:
        import json
        try:
            os.write(CRUMB_FD, (json.dumps(obj) + "\n").encode())
        except OSError:
            pass


COMPONENTS = {
    "cola (all of cola/ from the working tree)": "real",
    "plum dispatcher, optree, numpy, scipy": "real",
    "numpy global generator np.random.mtrand._rand": "real object, observed",
    "numpy data allocator": "real malloc behind fault-injecting PyDataMem handler (simalloc)"
    if HAVE_SIMALLOC else "real (simalloc extension unavailable: alloc_fail disabled)",
    "clock (cola.utils.torch_tqdm.time)": "stub SimClock",
    "progress bar (cola.utils.torch_tqdm.tqdm)": "stub FakeBar",
    "logging": "real logging, capturing handler",
    "np_fns.vmap/linear_transpose/sparse_csr/to_np": "stub shim (NumPy backend lacks them)",
    "user party / operator callbacks": "harness (Probe operators via public LinearOperator(matmat=))",
    "jax / torch backends": "absent (not installed)",
}
