#!/bin/sh
# usage: verify_seeded.sh <worktree> <outdir> <property>   -- confirm a seeded change (demo both ways, test-suite), then run the check on it
WT=$1; OUT=$2; PROP=$3
cd $WT || exit 2
echo "== demo on modified tree"; PYTHONPATH=$WT /venv/bin/python $OUT/demo.py > /tmp/demo.out 2>&1; echo "exit=$?"; tail -3 /tmp/demo.out
git apply -R $OUT/patch.diff
echo "== demo on unmodified tree"; PYTHONPATH=$WT /venv/bin/python $OUT/demo.py > /tmp/demo.out 2>&1; echo "exit=$?"; tail -3 /tmp/demo.out
git apply $OUT/patch.diff
echo "== test-suite on modified tree"
/venv/bin/python -m pytest -q -p no:cacheprovider --timeout=900 --continue-on-collection-errors 2>&1 | tail -1
/venv/bin/python -c "import cola; print(cola.__file__)"
echo "== check on modified tree"
EV=$(mktemp -d /tmp/seed-ev-XXXX)
cd /verif && VERIF_REPO=$WT VERIF_EVIDENCE_DIR=$EV VERIF_REPLAY_DIR=$EV ./check $PROP --tier ${TIER:-quick} 2>&1 | tail -6
ls $EV | head -5
for f in $EV/$PROP-*.json; do [ -f "$f" ] && /venv/bin/python -c "
import json,sys
r=json.load(open('$f')); print(json.dumps(r['violation'])[:900]); print('steps:', len(r['program'].get('steps',[])))
for s in r['program'].get('steps',[]): print('  ', json.dumps({k:v for k,v in s.items() if k!='menu'})[:260])
"; done
rm -rf $EV
