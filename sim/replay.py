"""./check replay <file>: re-run a recorded history in a fresh interpreter; must reproduce exactly."""
import json

from .check import fresh_interpreter_run


def main(path):
    rec = json.load(open(path))
    prop = rec.get("property")
    if rec.get("xproc"):
        digs = {}
        for hs, ncpu in (("1", 1), ("77", 6)):
            r = fresh_interpreter_run(rec.get("program") or rec["run_seed"], prop, hashseed=hs,
                                      tier=rec.get("tier", "quick"), cpus=ncpu)
            digs[hs] = (r.get("status"), r.get("events_digest"), r.get("results_digest"))
        same = len(set(digs.values())) == 1
        print(json.dumps(digs, indent=1))
        if not same:
            print("VIOLATION property=%s replay=%s" % (prop, path))
            print("REPRODUCED: results differ across process environments (PYTHONHASHSEED / usable CPUs)")
            return 1
        print("NOT-REPRODUCED")
        return 0
    if rec.get("pair"):
        key = rec["call"]
        ra = fresh_interpreter_run(rec["pair"][0], prop)
        rb = fresh_interpreter_run(rec["pair"][1], prop, hashseed="321")
        da, db = (ra.get("call_results") or {}).get(key), (rb.get("call_results") or {}).get(key)
        print(json.dumps({"call": key, "history_a": rec["pair"][0]["config"].get("letters"), "digest_a": da,
                          "history_b": rec["pair"][1]["config"].get("letters"), "digest_b": db}, indent=1))
        if da and db and da != db:
            print("VIOLATION property=%s replay=%s" % (prop, path))
            print("REPRODUCED: the same call returns different results in the two histories")
            return 1
        print("NOT-REPRODUCED")
        return 0
    prog = rec["program"]
    if "panel" in prog:
        from .coordinator import Pool
        with Pool(1) as pool:
            r = pool.run_one({"id": 0, "kind": "panel", "config": prog["panel"], "deadline": 120})
    else:
        r = fresh_interpreter_run(prog, prop)
    v = r.get("violation") or {}
    want = rec.get("violation") or {}
    print(json.dumps({"status": r.get("status"), "violation": v, "events_digest": r.get("events_digest"),
                      "recorded_events_digest": rec.get("event_log_digest")}, indent=1, default=str))
    if r.get("status") == "violation" and v.get("invariant") == want.get("invariant"):
        exact = rec.get("event_log_digest") in (None, r.get("events_digest"))
        print("VIOLATION property=%s replay=%s" % (prop, path))
        print("REPRODUCED%s" % (" (identical event log)" if exact else " (event log differs)"))
        return 1
    print("NOT-REPRODUCED")
    return 0
