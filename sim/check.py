"""Entry point: ./check <C17|C18> [--tier quick|thorough] | replay <file> | selftest ...

Exit codes: 0 property held on everything explored (known findings are printed, not counted);
            1 violation (line `VIOLATION property=<id> replay=<path>`);
            2 harness trouble (HARNESS-ERROR / HARNESS-TIMEOUT / nondeterministic replay) -- never 0.
"""
import argparse
import collections
import hashlib
import json
import os
import subprocess
import sys
import time

VERIF = os.path.dirname(os.path.dirname(os.path.abspath(__file__)))
sys.path.insert(0, VERIF)

from sim import program as P  # noqa: E402
from sim.coordinator import PY, Pool, default_workers, zygote_env  # noqa: E402
from sim.minimise import Minimiser  # noqa: E402

BUDGET = {  # wall-clock budgets in seconds per phase
    "quick": {"diff": 8, "random": 16, "xproc": 110, "crash_jobs": {"C17": 12, "C18": 20}, "sweep_len": 2},
    "thorough": {"diff": 240, "random": 420, "xproc": 4000, "crash_jobs": {"C17": 10**6, "C18": 10**6}, "sweep_len": 3},
}


def replay_dir():
    return os.environ.get("VERIF_REPLAY_DIR") or os.path.join(VERIF, "replays")


def build_ext():
    r = subprocess.run(["sh", os.path.join(VERIF, "sim", "build_simalloc.sh")], capture_output=True, text=True)
    return r.returncode == 0


def load_known():
    try:
        return json.load(open(os.path.join(VERIF, "known_findings.json")))
    except Exception:
        return {"findings": [], "fixed": []}


def match_known(viol, known):
    """A known finding matches by structural signature only (never by seed)."""
    for f in known.get("findings", []):
        if f.get("property") != viol["property"] or f.get("invariant") != viol["invariant"]:
            continue
        sig = f.get("signature") or {}
        det = viol.get("detail") or {}
        if viol["invariant"] == "I-FLAT" and sig.get("kind") == "first-instance-registry":
            s = det.get("signature") or []
            if (det.get("what", "").startswith("flatten() leaves are not exactly") and s and not det.get("non_array_leaves")
                    and all(e.get("registry") is False and e.get("holds_arrays") for e in s)
                    and det.get("n_leaves", 0) < det.get("n_params", 0)):
                return f
    return None


class Run:
    def __init__(self, prop, tier, seed, workers=None):
        self.prop, self.tier, self.seed = prop, tier, seed
        self.workers = workers or default_workers(tier)
        self.t0 = time.time()
        self.status = collections.Counter()
        self.stats = collections.Counter()
        self.fired = collections.Counter()
        self.sigs = set()
        self.nontrivial_sigs = set()
        self.samples = []
        self.violations = []  # (job, result)
        self.harness = []  # harness errors / timeouts
        self.known_hits = collections.Counter()
        self.evals = 0
        self.phase_info = {}
        self.max = {}

    def absorb(self, job, res):
        st = res.get("status", "harness_error")
        self.status[st] += 1
        self.evals += 1
        for k, v in (res.get("stats") or {}).items():
            if isinstance(v, (int, float)) and not isinstance(v, bool):
                if k.startswith("panel_max"):
                    self.max[k] = max(self.max.get(k, 0), v)
                else:
                    self.stats[k] += v
        for k, v in (res.get("fired") or {}).items():
            self.fired[k] += v
        sig = res.get("sched_sig")
        if sig:
            self.sigs.add(sig)
            if res.get("nontrivial"):
                self.nontrivial_sigs.add(sig)
        if st == "violation":
            self.violations.append((job, res))
        elif st in ("harness_error", "harness_timeout"):
            self.harness.append((job, res))
        if st == "ok" and res.get("program") is not None and len(self.samples) < 3 and res.get("nontrivial"):
            self.samples.append(_sample_of(res["program"]))


def _sample_of(prog):
    steps = []
    for s in prog.get("steps", [])[:12]:
        d = {k: v for k, v in s.items() if k in ("op", "fn", "act", "slot", "x", "repeat_of")}
        if s.get("op") == "make":
            d["recipe"] = _short(s.get("recipe"))
        if s.get("op") == "call":
            d["args"] = {k: (v if not isinstance(v, dict) else (v.get("slot") or "arr")) for k, v in s.get("args", {}).items()}
        steps.append(d)
    return {"run_seed": prog.get("run_seed"), "n_steps": len(prog.get("steps", [])), "steps": steps}


def _short(r, depth=0):
    if not isinstance(r, dict):
        return r
    if depth > 2:
        return r.get("k")
    out = {"k": r.get("k")}
    for key in ("of", "inner", "a", "b"):
        if key in r:
            out[key] = _short(r[key], depth + 1)
    if "args" in r:
        out["args"] = [_short(a, depth + 1) for a in r["args"]]
    for key in ("n", "name", "dtype", "sym", "slot"):
        if key in r:
            out[key] = r[key]
    return out


# ------------------------------------------------------------------------------------ phases
def phase_random(run, pool, budget_s, n_max=None):
    def jobs():
        i = 0
        while n_max is None or i < n_max:
            rs = P.derive_seed(run.seed, run.prop, run.tier, i)
            yield {"id": i, "kind": "seed", "property": run.prop, "run_seed": rs, "tier": run.tier,
                   "want_program": (i % 50 == 0), "deadline": 240}
            i += 1

    t = time.time()
    n0 = run.evals

    def on(job, res):
        if res.get("status") == "violation" and res.get("program") is None:
            pass
        run.absorb(job, res)

    pool.run(jobs(), on, deadline_s=budget_s, stop_flag=lambda: len(run.violations) >= 5 or len(run.harness) >= 5)
    run.phase_info["random"] = {"runs": run.evals - n0, "wall_s": round(time.time() - t, 1)}


def phase_xproc(run, n, hashseeds=("1", "77"), cpus=(1, 6), extra_programs=()):
    """Same histories in zygotes with different PYTHONHASHSEED and a different simulated number of usable CPUs:
    event and result digests must agree (process-environment independence of keyed results)."""
    t = time.time()
    digs = {}
    extra_programs = list(extra_programs)
    for hs, ncpu in zip(hashseeds, cpus):
        with Pool(run.workers, (hs, ), cpus=ncpu) as pool:
            def on(job, res, hs=hs):
                digs.setdefault(job["id"], {})[hs] = (res.get("status"), res.get("events_digest"),
                                                      res.get("results_digest"), job["run_seed"])
            jobs = [{"id": i, "kind": "seed", "property": run.prop, "tier": run.tier, "want_program": False,
                     "run_seed": P.derive_seed(run.seed, run.prop, run.tier, i), "deadline": 240} for i in range(n)]
            jobs += [{"id": "x%d" % j, "kind": "program", "program": p["program"], "want_program": False,
                      "run_seed": "large:" + p["name"], "deadline": 240} for j, p in enumerate(extra_programs)]
            pool.run(iter(jobs), on)
    mism = []
    compared = 0
    for i, d in sorted(digs.items(), key=lambda kv: str(kv[0])):
        vals = list(d.values())
        if len(vals) < 2 or any(v[0] in ("env_crash", "env_hang", "harness_timeout") for v in vals):
            continue
        compared += 1
        if any(v[:3] != vals[0][:3] for v in vals[1:]):
            mism.append((i, vals[0][3], d))
    run.phase_info["xproc"] = {"histories_compared": compared, "of_which_large_draw_programs": len(extra_programs),
                               "hashseeds": list(hashseeds), "simulated_cpu_counts": list(cpus),
                               "mismatches": len(mism), "wall_s": round(time.time() - t, 1)}
    run.stats["xproc_runs_compared"] += compared
    return mism


def fresh_interpreter_run(prog_or_seed, prop, hashseed="123", tier="quick", cpus=None):
    env = zygote_env(hashseed, cpus)
    if isinstance(prog_or_seed, dict):
        path = os.path.join("/tmp", "verif-replay-%d-%s.json" % (os.getpid(), hashlib.sha1(
            json.dumps(prog_or_seed, sort_keys=True).encode()).hexdigest()[:10]))
        json.dump(prog_or_seed, open(path, "w"))
        args = ["--program", path]
    else:
        path = None
        args = ["--seed", str(prog_or_seed), "--property", prop, "--tier", tier]
    try:
        r = subprocess.run([PY, "-m", "sim.run_one"] + args, cwd=VERIF, env=env, capture_output=True, text=True,
                           timeout=180)
        out = r.stdout
        return json.loads(out[out.index("{"):])
    except Exception as e:  # noqa
        return {"status": "harness_error", "error": "fresh interpreter run failed: %r" % (e, )}
    finally:
        if path:
            try:
                os.unlink(path)
            except OSError:
                pass


def phase_fresh(run, n):
    """A sample of run-seeds in really fresh interpreters (cold import, other PYTHONHASHSEED)."""
    t = time.time()
    mism = []
    with Pool(min(4, run.workers)) as pool:
        for i in range(n):
            rs = P.derive_seed(run.seed, run.prop, run.tier, i * 7)
            a = pool.run_one({"id": i, "kind": "seed", "property": run.prop, "run_seed": rs, "tier": run.tier,
                              "deadline": 240})
            b = fresh_interpreter_run(rs, run.prop, hashseed=str(1000 + i), tier=run.tier)
            if a.get("status") in ("env_crash", "env_hang") or b.get("status") == "harness_error":
                continue
            if (a.get("status"), a.get("events_digest"), a.get("results_digest")) != (
                    b.get("status"), b.get("events_digest"), b.get("results_digest")):
                mism.append((rs, a.get("status"), b.get("status")))
    run.phase_info["fresh_interpreter"] = {"seeds": n, "mismatches": len(mism), "wall_s": round(time.time() - t, 1)}
    run.stats["fresh_interpreter_runs"] += n
    return mism


# ----------------------------------------------------------------------------- reporting
def finalize_violation(run, pool, job, res, known):
    """minimise -> fresh-interpreter replay -> write replay file.  Returns ('known', f) |
    ('violation', path) | ('harness', msg)."""
    viol = res["violation"]
    prog = res.get("program")
    if res.get("pair"):
        # history-independence conflict: the replay is the PAIR of histories; verified in fresh interpreters
        rdir = replay_dir()
        os.makedirs(rdir, exist_ok=True)
        tag = "".join(ch if ch.isalnum() or ch in "-_.=" else "_" for ch in str(job.get("run_seed")))[:80]
        path = os.path.join(rdir, "%s-%s-pair.json" % (run.prop, tag))
        key = viol["detail"]["call"]
        for p in res["pair"]:
            p["want_results"] = True
        ra = fresh_interpreter_run(res["pair"][0], run.prop)
        rb = fresh_interpreter_run(res["pair"][1], run.prop, hashseed="321")
        da, db = (ra.get("call_results") or {}).get(key), (rb.get("call_results") or {}).get(key)
        rec = {"property": run.prop, "verif_seed": run.seed, "tier": run.tier, "pair": res["pair"], "call": key,
               "violation": viol, "fresh_interpreter_replay": {"digest_a": da, "digest_b": db,
                                                               "identical": bool(da and db and da != db)},
               "how_to_replay": "./check replay %s" % path}
        json.dump(rec, open(path, "w"), indent=1, default=str)
        if not (da and db and da != db):
            return "harness", "nondeterministic replay (I-HISTORY): %s" % path
        return "violation", path
    if prog is not None and "threads" in prog:
        # caller threads: drop baton switches while the violation persists, then replay in a fresh interpreter
        from . import threads as T
        try:
            prog, mres = T.minimise(pool, prog, res)
        except Exception as e:  # noqa
            mres = res
            run.phase_info.setdefault("minimise_errors", []).append(repr(e))
        viol = mres["violation"]
        rdir = replay_dir()
        os.makedirs(rdir, exist_ok=True)
        dg = hashlib.sha1(json.dumps(prog, sort_keys=True).encode()).hexdigest()[:10]
        tag = "".join(ch if ch.isalnum() or ch in "-_.=" else "_" for ch in str(job.get("run_seed", job.get("id"))))[:80]
        path = os.path.join(rdir, "%s-threads_%s-%s.json" % (run.prop, tag, dg))
        fr = fresh_interpreter_run(prog, run.prop)
        fv = fr.get("violation") or {}
        same = (fr.get("status") == "violation" and fv.get("invariant") == viol["invariant"]
                and fr.get("events_digest") == mres.get("events_digest"))
        rec = {"property": run.prop, "verif_seed": run.seed, "run_seed": job.get("run_seed"), "tier": run.tier,
               "job_kind": "threads", "program": prog, "violation": viol, "event_log_digest": mres.get("events_digest"),
               "fresh_interpreter_replay": {"status": fr.get("status"), "invariant": fv.get("invariant"),
                                            "events_digest": fr.get("events_digest"), "identical": same},
               "how_to_replay": "./check replay %s" % path}
        json.dump(rec, open(path, "w"), indent=1, default=str)
        if not same:
            return "harness", "nondeterministic replay (%s, caller threads): %s" % (viol["invariant"], path)
        return "violation", path
    if prog is None or "steps" not in prog:
        prog = prog or {}
        mres = res
    else:
        m = Minimiser(pool, budget=400 if run.tier == "thorough" else 200)
        try:
            prog, mres = m.minimise(prog, res)
        except Exception as e:  # noqa
            mres = res
            run.phase_info.setdefault("minimise_errors", []).append(repr(e))
    viol = mres["violation"]
    kf = match_known(viol, known)
    if kf is not None:
        return "known", kf
    rdir = replay_dir()
    os.makedirs(rdir, exist_ok=True)
    dg = hashlib.sha1(json.dumps(prog, sort_keys=True).encode()).hexdigest()[:10]
    tag = "".join(ch if ch.isalnum() or ch in "-_.=" else "_" for ch in str(job.get("run_seed", job.get("id"))))[:80]
    path = os.path.join(rdir, "%s-%s-%s.json" % (run.prop, tag, dg))
    rec = {"property": run.prop, "verif_seed": run.seed, "run_seed": job.get("run_seed"), "tier": run.tier,
           "job_kind": job.get("kind"), "program": prog, "violation": viol,
           "event_log_digest": mres.get("events_digest"),
           "how_to_replay": "./check replay %s" % path}
    if "steps" in prog:
        fr = fresh_interpreter_run(prog, run.prop)
        fv = fr.get("violation") or {}
        same = (fr.get("status") == "violation" and fv.get("invariant") == viol["invariant"]
                and mres.get("events_digest") in (None, fr.get("events_digest")))
        if rec.get("event_log_digest") is None:  # found by a crash-point-enumeration grandchild: take the replay's log
            rec["event_log_digest"] = fr.get("events_digest")
        rec["fresh_interpreter_replay"] = {"status": fr.get("status"), "invariant": fv.get("invariant"),
                                           "events_digest": fr.get("events_digest"), "identical": same}
        if not same:
            json.dump(rec, open(path, "w"), indent=1, default=str)
            return "harness", "nondeterministic replay (%s): %s" % (viol["invariant"], path)
        if viol["invariant"] == "I-INPUT":
            # diagnostic only: same history with the caller's arrays read-only names the mutating line
            ro = dict(prog)
            ro["readonly"] = True
            rr = fresh_interpreter_run(ro, run.prop)
            rec["mutating_line_readonly_rerun"] = rr.get("culprits")
    json.dump(rec, open(path, "w"), indent=1, default=str)
    return "violation", path


def write_evidence(run, extra_cov, violations_n, assumptions):
    from sim import evidence
    evidence.write(run, extra_cov, violations_n, assumptions)


def main(argv=None):
    ap = argparse.ArgumentParser()
    ap.add_argument("what")
    ap.add_argument("arg", nargs="?")
    ap.add_argument("--tier", default=os.environ.get("VERIF_TIER", "quick"))
    ap.add_argument("--seed", type=int, default=int(os.environ.get("VERIF_SEED", "0")))
    ap.add_argument("--workers", type=int, default=None)
    ap.add_argument("--budget", type=float, default=None, help="override wall budget (s) of the random phase")
    a = ap.parse_args(argv)
    if a.tier not in BUDGET:
        a.tier = "quick"
    os.chdir(VERIF)
    build_ext()
    if a.what == "replay":
        from sim import replay
        return replay.main(a.arg)
    if a.what == "selftest":
        from sim import selftest
        return selftest.main(a.arg, a.tier, a.seed)
    if a.what not in ("C17", "C18"):
        print("unknown property %r (claimed: C17, C18)" % a.what)
        return 2
    from sim import props
    return props.run_property(a.what, a.tier, a.seed, a.workers, a.budget)


if __name__ == "__main__":
    sys.exit(main())
