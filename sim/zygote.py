"""Pristine zygote: imports cola (instantiates nothing), then forks one child per job.

stdin : one JSON job per line   {"id":..., "kind": "seed"|"program"|"panel", ...}
stdout: one JSON result per line {"id":..., ...}
"""
import faulthandler
import json
import os
import select
import signal
import sys
import time


def _child(job, wfd):
    from . import interp, program, world
    world.CRUMB_FD = wfd
    res = None
    try:
        # a run that hangs dumps its stack into the result pipe shortly before the parent kills it
        faulthandler.dump_traceback_later(max(5, job.get("deadline", 60) - 3), file=wfd, exit=False)
        kind = job["kind"]
        if kind == "seed":
            prog = program.generate(job["property"], job["run_seed"], job.get("tier", "quick"), job.get("opts") or {})
            res = interp.run_program(prog)
        elif kind == "program":
            res = interp.run_program(job["program"])
        elif kind == "panel":
            from . import panel
            res = panel.run_panel(job)
        elif kind == "crashenum":
            from . import crashenum
            res = crashenum.run(job)
        else:
            res = {"status": "harness_error", "error": "unknown job kind %r" % kind}
    except BaseException as e:  # noqa
        import traceback
        res = {"status": "harness_error", "error": "".join(traceback.format_exception(type(e), e, e.__traceback__))[-3000:]}
    if not job.get("want_program", True) and res.get("status") == "ok":
        res.pop("program", None)
    faulthandler.cancel_dump_traceback_later()
    data = (json.dumps(res, default=str) + "\n").encode()
    off = 0
    while off < len(data):
        off += os.write(wfd, data[off:off + 65536])
    os.close(wfd)
    os._exit(0)


def serve():
    from . import world  # noqa: F401  (installs seams + shim, imports cola; instantiates nothing)
    from . import addr, calls, crashenum, interp, panel, program, program18, threads, threads18  # noqa: F401  (harness code only)
    import numpy  # noqa
    inp = sys.stdin
    out = sys.stdout
    out.write(json.dumps({"ready": True, "pid": os.getpid(), "simalloc": world.HAVE_SIMALLOC,
                          "cola": os.path.dirname(world.cola.__file__)}) + "\n")
    out.flush()
    for line in inp:
        line = line.strip()
        if not line:
            continue
        job = json.loads(line)
        if job.get("kind") == "quit":
            break
        deadline = job.get("deadline", 60)
        r, w = os.pipe()
        pid = os.fork()
        if pid == 0:
            os.close(r)
            try:
                # anything cola (or a dependency) prints must not corrupt the job protocol on fd 1
                dn = os.open(os.devnull, os.O_WRONLY)
                os.dup2(dn, 1)
                os.close(dn)
                _child(job, w)
            finally:
                os._exit(1)
        os.close(w)
        chunks = []
        t_end = time.monotonic() + deadline
        timed_out = False
        while True:
            left = t_end - time.monotonic()
            if left <= 0:
                timed_out = True
                break
            rl, _, _ = select.select([r], [], [], left)
            if not rl:
                timed_out = True
                break
            b = os.read(r, 1 << 16)
            if not b:
                break
            chunks.append(b)
        os.close(r)
        if timed_out:
            try:
                os.kill(pid, signal.SIGKILL)
            except ProcessLookupError:
                pass
        _, st = os.waitpid(pid, 0)
        lines = [ln for ln in b"".join(chunks).decode(errors="replace").split("\n") if ln.strip()]
        res, crumbs = None, []
        for ln in lines:
            try:
                o = json.loads(ln)
            except Exception:
                continue
            if isinstance(o, dict) and "status" in o:
                res = o
            else:
                crumbs.append(o)
        if timed_out:
            res = {"status": "harness_timeout", "crumbs": crumbs[-2:],
                   "error": "child exceeded %ss\n%s" % (deadline, "\n".join(ln for ln in lines if not ln.startswith("{"))[-1500:])}
        elif res is None:
            armed = None
            for c in crumbs:  # the latest "armed" crumb decides (other crumbs -- non-finite product, alarm -- may follow it)
                if isinstance(c, dict) and "armed" in c:
                    armed = c["armed"]
            if os.WIFSIGNALED(st) and os.WTERMSIG(st) != signal.SIGALRM and armed is not None:
                # the interpreter itself crashed while an allocation failure was armed: a NumPy/SciPy
                # bug on the NULL-allocation path (e.g. np.float64.__getitem__), not cola behaviour
                res = {"status": "env_crash", "signal": os.WTERMSIG(st), "crumb": crumbs[-1]}
            elif os.WIFSIGNALED(st) and os.WTERMSIG(st) == signal.SIGALRM and crumbs and crumbs[-1].get("nonfinite") is not None:
                # a dependency (LAPACK) did not return after an injected non-finite product
                res = {"status": "env_hang", "signal": os.WTERMSIG(st), "crumb": crumbs[-1]}
            else:
                res = {"status": "harness_error", "crumbs": crumbs[-2:],
                       "error": "child died (wait status %d) without a result" % st}
        res["id"] = job.get("id")
        out.write(json.dumps(res) + "\n")
        out.flush()


if __name__ == "__main__":
    serve()
