"""C18 workloads: seeded random histories, the bounded exhaustive sweep, crash-point programs."""
import copy
import itertools
import time

from .program import fault_plan, swarm

# ----------------------------------------------------------------------------- helpers


def ref(slot):
    return {"k": "ref", "slot": slot}


def arr(shape, dtype="f8", seed=0, **kw):
    d = {"shape": list(shape), "dtype": dtype, "seed": seed}
    d.update(kw)
    return {"arr": d}


class Gen:
    """Random-history generator with light symbolic tracking of what each slot holds."""
    def __init__(self, g, cfg):
        self.g = g
        self.cfg = cfg
        self.steps = []
        self.slots = {}  # slot -> flags
        self.calls = []
        self.nslot = 0
        self.seen_cls = set()
        self.algobjs = {}

    # ------------------------------------------------------------------ bookkeeping
    def add(self, st):
        st["id"] = len(self.steps)
        self.steps.append(st)
        return st

    def new_slot(self, prefix="A"):
        self.nslot += 1
        return "%s%d" % (prefix, self.nslot)

    def seed(self):
        return self.g.randrange(1 << 30)

    def pick(self, pred=None):
        c = [(s, f) for s, f in self.slots.items() if pred is None or pred(f)]
        return self.g.choice(c) if c else (None, None)

    # ------------------------------------------------------------------ leaves
    def leaf(self, n=None, arrayless=None, want=None):
        """-> (recipe, flags).  want in {None,'psd','sym','sq'}"""
        g, cfg = self.g, self.cfg
        n = n or cfg["n"]
        dt = cfg["dtype"]
        real = dt in ("f4", "f8")
        fl = {"r": n, "c": n, "dt": dt, "psd": False, "sym": False, "real": real, "less": False, "probe": False,
              "kind": None, "tri": False, "unitary": False}
        if arrayless is None:
            arrayless = g.random() < cfg["p_less"]
        if arrayless:
            kind = g.choice(["identity", "generic", "generic", "probe", "fft"] if not want else
                            ["identity", "generic", "probe"])
            fl["less"] = True
            if kind == "identity":
                r = {"k": "identity", "n": n, "dtype": dt}
                fl.update(psd=True, sym=True, unitary=True)
            elif kind == "fft":
                r = {"k": "fft", "n": n, "dtype": "c16"}
                fl.update(dt="c16", real=False, unitary=True)
            elif kind == "generic":
                sym = "psd" if want in ("psd", "sym") or g.random() < 0.5 else "gen"
                r = {"k": "generic", "n": n, "dtype": dt, "seed": self.seed(), "sym": sym}
                fl.update(psd=sym == "psd", sym=sym == "psd")
            else:
                sym = "psd" if want in ("psd", "sym") or g.random() < 0.5 else "gen"
                inner = {"k": g.choice(["generic", "dense"]), "n": n, "dtype": dt, "seed": self.seed(), "sym": sym}
                r = {"k": "probe", "inner": inner, "pid": self.nslot}
                fl.update(psd=sym == "psd", sym=sym == "psd", probe=True)
        else:
            kinds = ["dense", "dense", "dense_psd", "dense_sym", "diag", "tridiag", "tri", "perm", "householder",
                     "kernel", "scalar", "sparse", "dense_psd", "dense_singular"]
            if want == "psd":
                kinds = ["dense_psd", "dense_psd", "diag", "kernel", "dense_singular"]
            elif want == "sym":
                kinds = ["dense_psd", "dense_sym", "diag", "tridiag"]
            kind = g.choice(kinds)
            s = self.seed()
            rdt = dt if real else "f8"
            lay = g.choice(["c", "c", "c", "f", "strided", "tview"])
            if kind == "dense":
                r = {"k": g.choice(["dense", "dense", "lazify"]), "n": n, "dtype": dt, "seed": s, "sym": "gen", "layout": lay}
            elif kind == "dense_psd":
                r = {"k": "dense", "n": n, "dtype": dt, "seed": s, "sym": "psd", "layout": lay}
                fl.update(psd=True, sym=True)
            elif kind == "dense_singular":  # degenerate input: PSD only up to round-off (rank n-1), or the zero matrix
                r = {"k": "dense", "n": n, "dtype": dt, "seed": s, "sym": g.choice(["psd_singular", "psd_singular", "zero"])}
                fl.update(psd=True, sym=True)
            elif kind == "dense_sym":
                r = {"k": "dense", "n": n, "dtype": dt, "seed": s, "sym": "sym"}
                fl.update(sym=True)
            elif kind == "diag":
                r = {"k": "diag", "n": n, "dtype": rdt, "seed": s, "pos": True, "layout": lay}
                if g.random() < 0.2:
                    r["vals"] = g.choice(["mask", "tiny"])  # a singular / numerically singular diagonal
                fl.update(psd=True, sym=True, dt=rdt, real=True)
            elif kind == "tridiag":
                r = {"k": "tridiag", "n": max(n, 2), "dtype": rdt, "seed": s, "symm": g.random() < 0.7, "layout": lay}
                if g.random() < 0.2:  # off-diagonals of another precision than the main diagonal
                    r["offdt"] = "f8" if rdt == "f4" else "f4"
                fl.update(sym=r["symm"], dt=rdt, real=True, r=max(n, 2), c=max(n, 2))
            elif kind == "tri":
                r = {"k": "tri", "n": n, "dtype": dt, "seed": s, "lower": g.random() < 0.5}
                fl.update(tri=True)
            elif kind == "perm":
                r = {"k": "perm", "n": n, "seed": s, "dtype": rdt}
                if g.random() < 0.3:
                    r["neg"] = True  # index array with entries counted from the end
                fl.update(unitary=True, dt=rdt, real=True)
            elif kind == "householder":
                r = {"k": "householder", "n": n, "dtype": dt, "seed": s}
            elif kind == "kernel":
                r = {"k": "kernel", "n": n, "dtype": rdt, "seed": s, "bs1": g.choice([1, max(1, n // 2), n]),
                     "bs2": g.choice([1, max(1, n // 2), n])}
                fl.update(psd=True, sym=True, dt=rdt, real=True)
                if g.random() < 0.2:  # two point sets of different precision
                    r.update(same=False, x2dt="f8" if rdt == "f4" else "f4")
                    fl.update(psd=False, sym=False)
            elif kind == "scalar":
                r = {"k": "scalar", "c": g.choice([2.0, 0.5, 3.0]), "n": n, "dtype": dt}
                fl.update(psd=True, sym=True)
            else:
                r = {"k": "sparse", "n": n, "dtype": rdt, "seed": s}
                fl.update(dt=rdt, real=True)
        fl["kind"] = r["k"]
        if not arrayless and r["k"] not in ("scalar", ) and g.random() < 0.5 * cfg["probe_frac"]:
            # the user's own operator wrapping a cola operator: opens the callback seam
            r = {"k": "probe", "inner": r, "pid": self.nslot}
            fl.update(probe=True, less=True, tri=False, unitary=False)
        # declare what is true (annotation wrappers are part of the alphabet)
        declared = False
        if fl["psd"] and r["k"] not in ("identity", ) and g.random() < (0.9 if want else 0.5):
            r = {"k": "ann", "name": "PSD", "of": r}
            declared = True
        elif fl["sym"] and r["k"] not in ("identity", ) and g.random() < (0.9 if want else 0.4):
            r = {"k": "ann", "name": "SelfAdjoint", "of": r}
            fl["psd"] = False
            declared = True
        if not declared and r["k"] != "identity":
            fl["psd"] = fl["sym"] = False
        fl["declared"] = declared
        return r, fl

    def make_leaf(self, **kw):
        r, fl = self.leaf(**kw)
        slot = self.new_slot()
        st = {"op": "make", "slot": slot, "recipe": r}
        self.maybe_alloc_fault(st)
        self.add(st)
        self.slots[slot] = fl
        return slot, fl

    def maybe_alloc_fault(self, st, probe=False, pbar=False):
        plan = fault_plan(self.g, self.cfg, probe, pbar)
        if st["op"] == "make":
            plan = {k: v for k, v in plan.items() if k == "alloc"}
        if plan:
            st["plan"] = plan

    # ------------------------------------------------------------------ composites / algebra
    def operand(self, n=None, less=None, want=None, reuse_p=0.6):
        """An operand recipe: reference to a pool slot of the right size, or an inline leaf."""
        g = self.g
        n = n or self.cfg["n"]
        if g.random() < reuse_p:
            slot, fl = self.pick(lambda f: f["r"] == n and f["c"] == n and (less is None or f["less"] == less)
                                 and (want != "psd" or f["psd"]) and (want != "sym" or f["sym"]))
            if slot:
                return ref(slot), fl
        return self.leaf(n=n, arrayless=less, want=want)

    def make_composite(self):
        g, cfg = self.g, self.cfg
        n = cfg["n"]
        kind = g.choice(["sum", "product", "kron", "kronsum", "blockdiag", "concat", "transpose_cls", "adjoint_cls",
                         "sliced_cls", "T", "H", "add", "sub", "matmul", "neg", "smul", "rsmul", "div", "kron_fn",
                         "kronsum_fn", "block_diag_fn", "getitem", "getrow", "ann", "to", "no_dispatch", "I_like",
                         "sumsl", "ata"])
        # first-instantiation-order bias: the first composite of a kind prefers array-less / array-bearing children
        first = kind not in self.seen_cls
        self.seen_cls.add(kind)
        less = None
        if first and cfg["first_bias"] is not None:
            less = cfg["first_bias"]
        elif g.random() < 0.5:
            less = g.random() < cfg["p_less"]
        dt_real = cfg["dtype"] in ("f4", "f8")
        fl = {"r": n, "c": n, "dt": cfg["dtype"], "psd": False, "sym": False, "real": dt_real, "less": False,
              "probe": False, "kind": kind, "tri": False, "unitary": False, "declared": False}

        def opnd(**kw):
            r, f = self.operand(less=less, **kw)
            fl["less"] = fl.get("_allless", True) and f["less"]
            fl["_allless"] = fl["less"]
            fl["probe"] = fl["probe"] or f["probe"]
            if f["dt"] == "c16":
                fl["dt"], fl["real"] = "c16", False
            return r, f

        if kind in ("sum", "add", "sub"):
            (a, fa), (b, fb) = opnd(), opnd()
            r = {"k": "sum", "args": [a, b]} if kind == "sum" else {"k": kind, "a": a, "b": b}
            if kind != "sub":
                fl["psd"], fl["sym"] = fa["psd"] and fb["psd"], fa["sym"] and fb["sym"]
            else:
                fl["sym"] = fa["sym"] and fb["sym"]
        elif kind in ("product", "matmul"):
            (a, fa), (b, fb) = opnd(), opnd()
            r = {"k": "product", "args": [a, b]} if kind == "product" else {"k": "matmul", "a": a, "b": b}
        elif kind == "ata":
            a, fa = opnd()
            r = {"k": "matmul", "a": {"k": g.choice(["T", "H", "transpose_cls"]), "of": a}, "b": a}
            if a.get("k") == "ref":
                pass
        elif kind in ("kron", "kron_fn", "kronsum", "kronsum_fn"):
            m = g.choice([1, 2, 2, 3]) if n > 3 else g.choice([1, 2])
            (a, fa), (b, fb) = opnd(n=m), opnd(n=g.choice([1, 2]))
            if kind in ("kron", "kronsum"):
                r = {"k": kind, "args": [a, b]}
            else:
                r = {"k": kind, "a": a, "b": b}
            fl["r"] = fl["c"] = fa["r"] * fb["r"]
            fl["psd"], fl["sym"] = fa["psd"] and fb["psd"], fa["sym"] and fb["sym"]
        elif kind in ("blockdiag", "block_diag_fn"):
            (a, fa), (b, fb) = opnd(n=g.choice([1, 2, n])), opnd(n=g.choice([1, 2]))
            mult = g.choice([None, None, [1, 2], [2, 1]]) if kind == "blockdiag" else None
            r = {"k": kind, "args": [a, b]}
            if mult:
                r["mult"] = mult
            m = mult or [1, 1]
            fl["r"] = fl["c"] = fa["r"] * m[0] + fb["r"] * m[1]
            fl["psd"], fl["sym"] = fa["psd"] and fb["psd"], fa["sym"] and fb["sym"]
        elif kind == "concat":
            (a, fa), (b, fb) = opnd(), opnd()
            ax = g.choice([0, 0, 1])
            r = {"k": "concat", "args": [a, b], "axis": ax}
            fl["r"], fl["c"] = (2 * n, n) if ax == 0 else (n, 2 * n)
        elif kind in ("transpose_cls", "adjoint_cls", "T", "H", "neg", "no_dispatch", "I_like", "to"):
            if kind == "to" and g.random() < 0.5:
                less = True  # array-free operands travel in the aux data of a copy: the copy shares them with the original
            a, fa = opnd()
            r = {"k": kind, "of": a}
            if kind == "to" and g.random() < 0.6:
                r["dtype"] = g.choice(["f4", "f8", "c16", "c8"])
            if kind in ("transpose_cls", "adjoint_cls", "T", "H"):
                fl["psd"], fl["sym"] = fa["psd"], fa["sym"]
            if kind == "I_like":
                fl.update(psd=True, sym=True, less=True)
        elif kind in ("smul", "rsmul", "div"):
            a, fa = opnd()
            c = g.choice([2.0, 0.5, -1.5, 3]) if kind != "div" or True else 2.0
            if not fl["real"] and g.random() < 0.3:
                c = [0.5, 1.0]
            r = {"k": kind, "c": c, "of": a}
            pos = isinstance(c, (int, float)) and c > 0
            fl["psd"], fl["sym"] = fa["psd"] and pos, fa["sym"] and isinstance(c, (int, float))
        elif kind in ("sliced_cls", "getitem", "getrow"):
            a, fa = opnd()
            lo, hi = sorted(g.sample(range(0, n + 1), 2)) if n >= 1 else (0, 1)
            u = g.random()
            # contiguous / every second row / all rows in reverse order / a reversed run
            s0 = [lo, hi] if u < 0.7 else [0, n, 2] if u < 0.8 else [None, None, -1] if u < 0.92 else [max(hi - 1, 0), None, -1]
            s1 = s0 if g.random() < 0.5 else ([0, max(1, n - 1)] if g.random() < 0.7 else None)
            if kind == "getrow":
                r = {"k": "getrow", "of": a, "s0": s0}
                s1 = None
            else:
                r = {"k": kind, "of": a, "s0": s0, "s1": s1}
            rows = len(range(*slice(*s0).indices(n)))
            cols = n if s1 is None else len(range(*slice(*s1).indices(n)))
            fl["r"], fl["c"] = rows, cols
            if s0 == s1:
                fl["psd"], fl["sym"] = fa["psd"], fa["sym"]
        elif kind == "sumsl":
            # the composite whose concrete parametric class does not pin "has arrays"
            (a, fa), (b, fb) = opnd(), opnd()
            sl = [0, max(1, n - 1)]
            r = {"k": g.choice(["sum", "add"]), }
            A = {"k": "getitem", "of": a, "s0": None, "s1": sl}
            Bc = {"k": "getitem", "of": b, "s0": None, "s1": sl}
            r = {"k": "sum", "args": [A, Bc]} if r["k"] == "sum" else {"k": "add", "a": A, "b": Bc}
            fl["r"], fl["c"] = n, sl[1] - sl[0]
        else:  # ann
            want = g.choice(["psd", "sym"])
            a, fa = self.operand(less=less, want=want)
            name = "PSD" if fa["psd"] else ("SelfAdjoint" if fa["sym"] else g.choice(["PSD", "SelfAdjoint"]))
            if fa.get("unitary") and g.random() < 0.5:
                name = g.choice(["Unitary", "Stiefel"])
            u = g.random()
            if u < 0.25:
                # a second declaration on top of a first one (weaker below stronger, or unrelated)
                a = {"k": "ann", "name": g.choice(["SelfAdjoint", "Stiefel", "PSD", "Unitary"]), "of": a}
                name = g.choice(["PSD", "Unitary", "SelfAdjoint", "Stiefel"])
            elif u < 0.4:
                name = g.choice(["PSD", "Unitary", "SelfAdjoint", "Stiefel"])
            r = {"k": "ann", "name": name, "of": a}
            fl["psd"], fl["sym"] = name == "PSD", name in ("PSD", "SelfAdjoint")
            fl["less"], fl["probe"] = fa["less"], fa["probe"]
            self.note("annotate_then_check_original")
        fl.pop("_allless", None)
        slot = self.new_slot()
        st = {"op": "make", "slot": slot, "recipe": r}
        self.maybe_alloc_fault(st)
        self.add(st)
        # composites built from inferred annotations: keep only what cola will itself know
        self.slots[slot] = fl
        return slot, fl

    def algobj(self, cls, kw):
        """A caller-owned algorithm object, built once and reused across calls (possibly on other operands)."""
        g = self.g
        have = [n for n, c in self.algobjs.items() if c == cls]
        if have and g.random() < 0.6:
            return {"algobj": g.choice(have)}
        name = "g%d" % (len(self.algobjs) + 1)
        self.algobjs[name] = cls
        self.add({"op": "mkalg", "name": name, "cls": cls, "kw": kw})
        return {"algobj": name}

    def note(self, name):
        self.cfg.setdefault("_notes", {})
        self.cfg["_notes"][name] = self.cfg["_notes"].get(name, 0) + 1

    # ------------------------------------------------------------------ actions
    def vec(self, n, k=None, dtype=None, kind=None):
        g = self.g
        if dtype is not None and g.random() < 0.12:  # an operand of another precision / field: the product promotes
            dtype = {"f4": "f8", "f8": g.choice(["c16", "f4"]), "c16": "f8", "c8": "c16"}.get(dtype, dtype)
        shape = [n] if k is None else [n, k]
        layout = g.choice(["c", "c", "c", "c", "c", "f", "f", "strided", "strided", "neg", "ro", "bcast"])
        return arr(shape, dtype or self.cfg["dtype"], self.seed() % 50, layout=layout,
                   **({"kind": kind} if kind else {}))

    def action(self):
        g, cfg = self.g, self.cfg
        slot, fl = self.pick()
        if slot is None:
            return None
        sq = fl["r"] == fl["c"]
        n = fl["c"]
        A = {"slot": slot}
        dt = fl["dt"]
        pbar = cfg["pbar"] and g.random() < 0.6
        menu = ["matvec", "matvec", "matmat", "rmatvec", "rmatvec", "rmatmat", "to_dense", "densify", "flatten", "isa"]
        if sq:
            menu += ["diag_exact", "diag_default", "trace_default", "trace_exact", "diag_hutch", "solve", "solve",
                     "inv", "pinv_solve", "logdet", "slogdet", "unary", "unary_apply", "eig", "eigmax_d", "eigmin_d",
                     "svd", "plu", "gmres", "arnoldi", "power_iteration", "eig_arnoldi", "rsolve", "rsolve"]
            if fl["psd"]:
                menu += ["solve_cg", "solve_cg", "solve_chol", "cholesky", "cg", "cg", "nystrom", "logdet_lh",
                         "unary_lanczos", "unary_lanczos"]
            if fl["sym"]:
                menu += ["lanczos", "eig_lanczos", "unary_eigh"]
        else:
            menu += ["pinv_solve", "svd"]
        fn = g.choice(menu)
        a = {"A": A}
        st = {"op": "call", "fn": fn, "args": a}
        kw_iter = {"max_iters": g.choice([0, 1, 2, 5, 50]), "tol": g.choice([1e-6, 1e-3, 2.0])}
        if pbar:
            kw_iter["pbar"] = True
        if fn in ("matvec", "rmatvec"):
            a["x"] = self.vec(fl["c"] if fn == "matvec" else fl["r"], dtype=dt)
            if fn == "rmatvec" and g.random() < 0.4:
                a["x"] = self.vec(2, fl["r"], dtype=dt)
        elif fn == "matmat":
            st["fn"] = "matvec"
            a["x"] = self.vec(fl["c"], g.choice([1, 2, 3]), dtype=dt)
        elif fn == "rmatmat":
            st["fn"] = "rmatvec"
            a["x"] = self.vec(g.choice([1, 2, 3]), fl["r"], dtype=dt)
        elif fn == "rsolve":
            a["b"] = self.vec(n, dtype=dt) if g.random() < 0.5 else self.vec(2, n, dtype=dt)
            alg = g.choice([None, None, "LU", "Cholesky" if fl["psd"] else "LU"])
            if alg:
                a["alg"] = alg
        elif fn in ("diag_exact", "diag_default"):
            a["k"] = g.choice([0, 0, 1, -1]) if n > 1 else 0
        elif fn == "diag_hutch":
            a.update({"k": 0, "tol": 0.2, "max_iters": g.choice([1, 2]), "key": g.choice([None, 1, 7])})
        elif fn in ("solve", "inv"):
            alg = g.choice([None, "Auto", "LU", "GMRES", "GMRES"])
            if fn == "solve":
                a["b"] = self.vec(n, g.choice([None, None, 2]), dtype=dt)
            if alg:
                a["alg"] = alg
                if alg == "GMRES":
                    a["akw"] = dict(kw_iter)
                    if g.random() < 0.5 and fn == "solve":
                        a["x0"] = self.vec(n, None if "shape" in a["b"]["arr"] and len(a["b"]["arr"]["shape"]) == 1 else 2,
                                           dtype=dt)
                elif alg == "Auto" and g.random() < 0.5:
                    a["akw"] = {"tol": 1e-4}
            if fn == "inv":
                st["out"] = self.new_slot("R")
        elif fn in ("solve_cg", "solve_chol"):
            st["fn"] = "solve"
            a["b"] = self.vec(n, g.choice([None, None, 2]), dtype=dt)
            if fn == "solve_chol":
                a["alg"] = "Cholesky"
            else:
                a["alg"] = "CG"
                a["akw"] = dict(kw_iter)
                two = len(a["b"]["arr"]["shape"]) == 2
                if g.random() < 0.7:
                    mism = g.random() < 0.2
                    a["x0"] = self.vec(n, (None if two else 2) if mism else (2 if two else None), dtype=dt,
                                       kind=g.choice([None, None, "zeros"]))
                if g.random() < 0.3:
                    ps, pf = self.pick(lambda f: f["psd"] and f["r"] == n and f["c"] == n)
                    if ps:
                        a["P"] = {"slot": ps}
        elif fn == "pinv_solve":
            a["b"] = self.vec(fl["r"], dtype=dt)
            if g.random() < 0.3 and dt in ("f4", "f8"):
                a["alg"] = "CG"
                a["akw"] = {"max_iters": 5}
        elif fn in ("logdet", "slogdet"):
            alg = g.choice([None, None, "LU", "Auto", "Cholesky" if fl["psd"] else "LU"])
            if alg:
                a["alg"] = alg
        elif fn == "logdet_lh":
            a.update({"lkw": {"max_iters": g.choice([2, n])}, "hkw": {"tol": 0.5, "max_iters": 1, "key": 3}})
        elif fn in ("unary", "unary_apply", "unary_eigh", "unary_lanczos"):
            f = g.choice(["exp", "sqrt", "isqrt", "log", "pow2", "pow-1", "pow0.5", "pow0", "ap:sq"])
            a["f"] = f
            if fn == "unary_eigh":
                a["alg"] = "Eigh"
                st["fn"] = g.choice(["unary", "unary_apply"])
            elif fn == "unary_lanczos":
                a["alg"] = "Lanczos"
                a["akw"] = {"max_iters": g.choice([2, n, 20])}
                if g.random() < 0.6:
                    a["v0"] = self.vec(n, dtype=dt)
                st["fn"] = g.choice(["unary", "unary_apply", "unary_apply"])
            else:
                alg = g.choice([None, None, "Eig", "Arnoldi"])
                if alg:
                    a["alg"] = alg
                    if alg == "Arnoldi":
                        a["akw"] = {"max_iters": g.choice([2, n, 20])}
            if st["fn"] == "unary_apply":
                a["x"] = self.vec(n, g.choice([None, 2]), dtype=dt)
            else:
                st["out"] = self.new_slot("R")
        elif fn == "eig":
            a.update({"k": g.choice([1, 2, n]), "which": g.choice(["LM", "SM"])})
            alg = g.choice([None, "Eig", "Auto", "PowerIteration"])
            if alg == "PowerIteration":
                a.update({"k": 1, "which": "LM"})
                a["akw"] = {"max_iter": 5}
            if alg:
                a["alg"] = alg
        elif fn == "eig_lanczos":
            st["fn"] = "eig"
            a.update({"k": g.choice([1, 2]), "which": g.choice(["LM", "SM"]), "alg": "Lanczos",
                      "akw": {"max_iters": g.choice([2, n, 20])}})
            if g.random() < 0.6:
                a["v0"] = self.vec(n, dtype=dt)
        elif fn == "eig_arnoldi":
            st["fn"] = "eig"
            a.update({"k": g.choice([1, 2]), "which": "LM", "alg": "Arnoldi", "akw": {"max_iters": g.choice([2, n, 20])}})
            if g.random() < 0.6:
                a["v0"] = self.vec(n, dtype=dt)
        elif fn == "svd":
            a.update({"k": g.choice([1, 2]), "which": "LM"})
            if g.random() < 0.3:
                a["alg"] = "Lanczos"
                a["akw"] = {"max_iters": 10}
        elif fn in ("cg", "gmres"):
            two = g.random() < 0.3
            a["b"] = self.vec(n, 2 if two else None, dtype=dt)
            if g.random() < 0.7:
                a["x0"] = self.vec(n, 2 if two else None, dtype=dt)
            a.update(kw_iter)
            if fn == "cg" and g.random() < 0.3:
                ps, pf = self.pick(lambda f: f["psd"] and f["r"] == n and f["c"] == n)
                if ps:
                    a["P"] = {"slot": ps}
            if fn == "gmres" and g.random() < 0.2:
                a["use_householder"] = True
                a["max_iters"] = min(a["max_iters"], max(1, n))
        elif fn in ("lanczos", "arnoldi"):
            if g.random() < 0.8:
                a["v0"] = self.vec(n, g.choice([None, None, 2]) if fn == "lanczos" else None, dtype=dt)
                if fn == "lanczos" and len(a["v0"]["arr"]["shape"]) == 2:
                    a["v0"]["arr"]["shape"] = [2, n] if False else [n, 2]
            a.update({"max_iters": g.choice([1, 2, n, 20]), "tol": 1e-7})
            if pbar:
                a["pbar"] = True
        elif fn == "power_iteration":
            a.update({"max_iter": g.choice([1, 5]), "key": g.choice([None, 2])})
        elif fn == "nystrom":
            a.update({"rank": g.choice([1, 2]), "key": g.choice([None, 3])})
            st["out"] = self.new_slot("R")
        elif fn == "isa":
            a["name"] = g.choice(["PSD", "SelfAdjoint", "Unitary", "Stiefel"])
        if st["fn"] == "diag_hutch" and g.random() < 0.5:
            kw = {k: v for k, v in a.items() if k not in ("A", "k")}
            for k in list(kw):
                a.pop(k)
            a["alg"] = self.algobj("Hutch", kw)
        if isinstance(a.get("alg"), str) and a["alg"] in ("CG", "GMRES", "Lanczos", "Arnoldi", "Auto") and g.random() < 0.35:
            kw = dict(a.pop("akw", None) or {})
            for extra, field in (("x0", "x0"), ("P", "P"), ("v0", "start_vector")):
                if extra in a:
                    kw[field] = a.pop(extra)
            if a["alg"] == "Auto":
                kw = {k: v for k, v in kw.items() if k in ("tol", "max_iters")}
            a["alg"] = self.algobj(a["alg"], kw)
        seam = fl["probe"] or fl["kind"] == "kernel" or str(a.get("f", "")).startswith("ap:")
        self.maybe_alloc_fault(st, probe=seam, pbar=bool(a.get("pbar") or (a.get("akw") or {}).get("pbar")))
        if fl["probe"] and cfg["rates"].get("reenter", 0) > 0:
            # re-enter cola on the SAME operands as the outer call, or on another pool operator
            menu = [{"fn": st["fn"], "args": a}]
            menu.append({"fn": "to_dense", "args": {"A": A}})
            menu.append({"fn": "flatten", "args": {"A": A}})
            o, _ = self.pick()
            menu.append({"fn": "matvec", "args": {"A": {"slot": o}, "x": self.vec(self.slots[o]["c"], dtype=self.slots[o]["dt"])}})
            st["menu"] = menu
        self.add(st)
        self.calls.append(st)
        if st.get("out"):
            self.slots[st["out"]] = {"r": fl["r"], "c": fl["c"], "dt": dt, "psd": False, "sym": False,
                                     "real": fl["real"], "less": False, "probe": fl["probe"], "kind": "result",
                                     "tri": False, "unitary": False, "declared": False}
        return st


OPTIONAL_MODULES = ["cola.linalg.preconditioning.preconditioners", "cola.linalg.tbd.slq", "cola.linalg.tbd.randomized_svd",
                    "cola.linalg.svd.svd", "cola.linalg.tbd.nullspace", "cola.linalg.tbd.qr"]


def gen_c18(g, run_seed, tier, opts):
    cfg = swarm(g, opts)
    cfg["n"] = g.choice([1, 2, 2, 3, 3, 3, 4, 4, 5, 6]) if cfg["n"] < 50 or g.random() < 0.7 else g.choice([33, 101])
    if cfg["n"] > 12:
        cfg["nsteps"] = min(cfg["nsteps"], 6)
    cfg["p_less"] = g.choice([0.1, 0.3, 0.5, 0.8])
    cfg["first_bias"] = g.choice([None, True, False])
    cfg["import_at"] = g.choice(["never", "start", "mid"])
    G = Gen(g, cfg)
    if cfg["import_at"] == "start":
        G.add({"op": "import", "module": g.choice(OPTIONAL_MODULES)})
    for i in range(g.choice([1, 2, 2, 3])):
        G.make_leaf(want="psd" if (i == 0 and g.random() < 0.6) else None)
    nsteps = cfg["nsteps"]
    mid = nsteps // 2
    for i in range(nsteps):
        if cfg["import_at"] == "mid" and i == mid:
            G.add({"op": "import", "module": g.choice(OPTIONAL_MODULES)})
        u = g.random()
        if G.calls and u < cfg["repeat_p"]:
            base = g.choice(G.calls)
            st = {k: v for k, v in base.items() if k in ("op", "fn", "args", "menu")}
            st["repeat_of"] = base["id"]
            # a repeat after a fault is fault-free with probability 1/2 (must equal the reference)
            if g.random() < 0.5:
                pf = G.slots.get(base["args"]["A"]["slot"], {}).get("probe", False)
                G.maybe_alloc_fault(st, probe=pf, pbar=False)
            G.add(st)
        elif u < cfg["repeat_p"] + 0.08:
            act = g.choice([["draw", "randn", 2], ["reseed", g.randrange(2**32)],
                            ["loglevel", g.choice(["DEBUG", "INFO", "ERROR"])],
                            ["seterr", g.choice(["raise", "warn", "ignore"])],
                            ["warnfilter", g.choice(["error", "ignore", "always"])]])
            G.add({"op": "user", "act": act, "slot": "s0"})
        elif u < cfg["repeat_p"] + 0.08 + 0.03:
            made = [s for s in G.steps if s["op"] == "make" and s["slot"] in G.slots]
            if made:  # a second operator built from the very same recipe (equal value, other object)
                src = g.choice(made)
                slot = G.new_slot()
                G.add({"op": "make", "slot": slot, "recipe": src["recipe"]})
                G.slots[slot] = dict(G.slots[src["slot"]])
        elif u < cfg["repeat_p"] + 0.08 + 0.12:
            G.make_leaf()
        elif u < cfg["repeat_p"] + 0.08 + 0.12 + 0.25:
            G.make_composite()
        else:
            G.action()
    return {"property": "C18", "run_seed": run_seed, "rng0": g.randrange(2**32), "config": cfg, "mode": "seed",
            "tier": tier, "steps": G.steps}


# =========================================================================================
# Bounded exhaustive sweep: alphabet of self-contained macros over canonical small operands
# =========================================================================================
N = 3
DN = {"k": "dense", "n": N, "dtype": "f8", "seed": 11, "sym": "gen"}
DN2 = {"k": "dense", "n": N, "dtype": "f8", "seed": 12, "sym": "gen"}
SP = {"k": "dense", "n": N, "dtype": "f8", "seed": 13, "sym": "psd"}
GE = {"k": "generic", "n": N, "dtype": "f8", "seed": 14, "sym": "psd"}
GE2 = {"k": "generic", "n": N, "dtype": "f8", "seed": 15, "sym": "gen"}
ID = {"k": "identity", "n": N, "dtype": "f8"}
DG = {"k": "diag", "n": N, "dtype": "f8", "seed": 16}
D2 = {"k": "dense", "n": 2, "dtype": "f8", "seed": 17, "sym": "psd"}
I2 = {"k": "identity", "n": 2, "dtype": "f8"}
G2 = {"k": "generic", "n": 2, "dtype": "f8", "seed": 18, "sym": "psd"}
B = arr([N], "f8", 1)
B2 = arr([N, 2], "f8", 2)
X0 = arr([N], "f8", 3)
V0 = arr([N], "f8", 4)


def mk(slot, r):
    return {"op": "make", "slot": slot, "recipe": r}


def call(fn, out=None, fx=None, **args):
    st = {"op": "call", "fn": fn, "args": args}
    if out:
        st["out"] = out
    if fx:
        st["x"] = fx
    return st


def S(slot):
    return {"slot": slot}


_psd = lambda r: {"k": "ann", "name": "PSD", "of": r}  # noqa: E731
_sa = lambda r: {"k": "ann", "name": "SelfAdjoint", "of": r}  # noqa: E731
_sl = lambda r: {"k": "getitem", "of": r, "s0": None, "s1": [0, 2]}  # noqa: E731
_sl2 = lambda r: {"k": "getitem", "of": r, "s0": None, "s1": [1, 3]}  # noqa: E731

PRE = {  # canonical operands, created by whichever letter first needs them
    "D": mk("D", DN), "E": mk("E", DN2), "P": mk("P", _psd(SP)), "G": mk("G", _psd(GE)), "Gn": mk("Gn", GE2),
    "I": mk("I", ID), "Dg": mk("Dg", DG),
    "Pr": mk("Pr", _psd({"k": "probe", "inner": GE, "pid": 1})),
    "Prd": mk("Prd", {"k": "probe", "inner": DN, "pid": 2}),
}

RAISE0 = {"cb": {"0": ["raise"]}}
RAISE1 = {"cb": {"1": ["raise"]}}
REENTER = {"cb": {"0": ["reenter", 0], "1": ["draw", "randn", 2]}}

ALPHABET = {
    # ---- leaf constructors --------------------------------------------------------------
    "mk_dense": [PRE["D"]], "mk_identity": [PRE["I"]], "mk_generic": [PRE["Gn"]], "mk_diag": [PRE["Dg"]],
    "mk_tridiag": [mk("T3", {"k": "tridiag", "n": N, "seed": 21, "symm": False})],
    "mk_perm": [mk("Pm", {"k": "perm", "n": N, "seed": 22})],
    "mk_tri": [mk("Tr", {"k": "tri", "n": N, "seed": 23})],
    "mk_sparse": [mk("Sp", {"k": "sparse", "n": N, "seed": 24})],
    "mk_kernel": [mk("Ke", {"k": "kernel", "n": N, "seed": 25, "bs1": 1, "bs2": 2})],
    "mk_householder": [mk("Hh", {"k": "householder", "n": N, "seed": 26})],
    "mk_fft": [mk("Ff", {"k": "fft", "n": N})],
    "mk_scalar": [mk("Sc", {"k": "scalar", "c": 2.0, "n": N})],
    "mk_probe": [PRE["Prd"]],
    # ---- composites: array-bearing (b) vs array-less (l) first instances -----------------
    "sum_b": [mk("sum_b", {"k": "sum", "args": [DN, DG]})],
    "sum_l": [mk("sum_l", {"k": "sum", "args": [GE2, ID]})],
    "prod_b": [mk("prod_b", {"k": "product", "args": [DN, DN2]})],
    "prod_l": [mk("prod_l", {"k": "product", "args": [GE2, GE]})],
    "kron_b": [mk("kron_b", {"k": "kron", "args": [D2, D2]})],
    "kron_l": [mk("kron_l", {"k": "kron", "args": [G2, I2]})],
    "kronsum_b": [mk("kronsum_b", {"k": "kronsum", "args": [D2, D2]})],
    "kronsum_l": [mk("kronsum_l", {"k": "kronsum", "args": [G2, G2]})],
    "bd_b": [mk("bd_b", {"k": "blockdiag", "args": [D2, DG], "mult": [2, 1]})],
    "bd_l": [mk("bd_l", {"k": "blockdiag", "args": [G2, ID], "mult": [2, 1]})],
    "tr_b": [mk("tr_b", {"k": "transpose_cls", "of": DN})],
    "tr_l": [mk("tr_l", {"k": "transpose_cls", "of": GE2})],
    "adj_b": [mk("adj_b", {"k": "adjoint_cls", "of": DG})],
    "adj_l": [mk("adj_l", {"k": "adjoint_cls", "of": GE2})],
    "sl_b": [mk("sl_b", {"k": "sliced_cls", "of": DN, "s0": [0, 2], "s1": [0, 2]})],
    "sl_l": [mk("sl_l", {"k": "sliced_cls", "of": ID, "s0": [0, 2], "s1": [0, 2]})],
    "cat_b": [mk("cat_b", {"k": "concat", "args": [DN, DG], "axis": 0})],
    "cat_l": [mk("cat_l", {"k": "concat", "args": [GE2, ID], "axis": 0})],
    "sumsl_b": [mk("sumsl_b", {"k": "add", "a": _sl(DN), "b": _sl2(DN)})],
    "sumsl_l": [mk("sumsl_l", {"k": "sum", "args": [_sl(ID), _sl(ID)]})],
    "prodsl_b": [mk("prodsl_b", {"k": "product", "args": [_sl(DN), {"k": "T", "of": _sl(DN)}]})],
    "prodsl_l": [mk("prodsl_l", {"k": "product", "args": [_sl(GE2), {"k": "transpose_cls", "of": _sl(GE2)}]})],
    # ---- algebra / annotation / moves on pool operands ----------------------------------------
    "alg_add": [PRE["D"], PRE["Dg"], mk("a_add", {"k": "add", "a": {"k": "ref", "slot": "D"}, "b": {"k": "ref", "slot": "Dg"}})],
    "alg_smul": [PRE["P"], mk("a_smul", {"k": "smul", "c": -2.0, "of": {"k": "ref", "slot": "P"}})],
    "alg_ata": [PRE["D"], mk("a_ata", {"k": "matmul", "a": {"k": "T", "of": {"k": "ref", "slot": "D"}}, "b": {"k": "ref", "slot": "D"}})],
    "alg_T_psd": [PRE["P"], mk("a_T", {"k": "T", "of": {"k": "ref", "slot": "P"}})],
    "alg_H_gen": [PRE["Gn"], mk("a_H", {"k": "H", "of": {"k": "ref", "slot": "Gn"}})],
    "ann_psd": [PRE["D"], mk("a_psd", {"k": "ann", "name": "PSD", "of": {"k": "ref", "slot": "D"}})],
    "ann_unitary": [PRE["Gn"], mk("a_uni", {"k": "ann", "name": "Unitary", "of": {"k": "ref", "slot": "Gn"}})],
    "ann_psd_over_sa": [mk("Sa", _sa(SP)), mk("a_psd_sa", {"k": "ann", "name": "PSD", "of": {"k": "ref", "slot": "Sa"}})],
    "ann_uni_over_stiefel": [mk("St", {"k": "ann", "name": "Stiefel", "of": {"k": "perm", "n": N, "seed": 22}}),
                             mk("a_uni_st", {"k": "ann", "name": "Unitary", "of": {"k": "ref", "slot": "St"}})],
    "ann_sa_over_psd": [PRE["P"], mk("a_sa_psd", {"k": "ann", "name": "SelfAdjoint", "of": {"k": "ref", "slot": "P"}})],
    "T_of_annotated": [mk("Sa", _sa(SP)), mk("a_T_sa", {"k": "transpose_cls", "of": {"k": "ref", "slot": "Sa"}})],
    "algobj_hutch_kron": [mk("kron_l", {"k": "kron", "args": [G2, I2]}),
                          {"op": "mkalg", "name": "g_h", "cls": "Hutch", "kw": {"tol": 0.2, "max_iters": 2, "key": 7}},
                          call("trace_hutch", A=S("kron_l"), alg={"algobj": "g_h"})],
    "algobj_hutch_generic": [PRE["G"], {"op": "mkalg", "name": "g_h", "cls": "Hutch", "kw": {"tol": 0.2, "max_iters": 2, "key": 7}},
                             call("diag_hutch", A=S("G"), alg={"algobj": "g_h"})],
    "to_f4": [PRE["D"], mk("a_to", {"k": "to", "of": {"k": "ref", "slot": "D"}, "dtype": "f4"})],
    "to_f4_kron_l": [mk("kron_l", {"k": "kron", "args": [G2, I2]}),
                     mk("a_to_kl", {"k": "to", "of": {"k": "ref", "slot": "kron_l"}, "dtype": "f4"})],
    "to_f4_sum_l": [mk("sum_l", {"k": "sum", "args": [GE2, ID]}),
                    mk("a_to_sl", {"k": "to", "of": {"k": "ref", "slot": "sum_l"}, "dtype": "f4"})],
    "to_c8_prod_fft": [mk("Ff", {"k": "fft", "n": N}), mk("pf", {"k": "product", "args": [{"k": "ref", "slot": "Ff"},
                                                                                      {"k": "ref", "slot": "Ff"}]}),
                       mk("a_to_pf", {"k": "to", "of": {"k": "ref", "slot": "pf"}, "dtype": "c8"})],
    "to_f4_nested": [PRE["D"], PRE["I"],
                     mk("nest", {"k": "transpose_cls", "of": {"k": "product", "args": [
                         {"k": "ref", "slot": "D"}, {"k": "kron", "args": [{"k": "identity", "n": 1, "dtype": "f8"},
                                                                          {"k": "ref", "slot": "I"}]}]}}),
                     mk("a_to_nest", {"k": "to", "of": {"k": "ref", "slot": "nest"}, "dtype": "f4"})],
    "chol_singular": [mk("Ps", _psd({"k": "dense", "n": N, "dtype": "f8", "seed": 41, "sym": "psd_singular"})),
                      call("cholesky", A=S("Ps"))],
    "solve_singular": [mk("Ps", _psd({"k": "dense", "n": N, "dtype": "f8", "seed": 41, "sym": "psd_singular"})),
                       call("solve", A=S("Ps"), b=B)],
    "logdet_singular": [mk("Ps", _psd({"k": "dense", "n": N, "dtype": "f8", "seed": 41, "sym": "psd_singular"})),
                        call("logdet", A=S("Ps"))],
    "inv_kron_singular": [mk("Ks", _psd({"k": "kron", "args": [
        _psd({"k": "dense", "n": 2, "dtype": "f8", "seed": 42, "sym": "psd_singular"}), _psd(D2)]})),
        call("inv", out="R_ks", A=S("Ks"))],
    "chol_zero": [mk("Pz", _psd({"k": "dense", "n": N, "dtype": "f8", "seed": 43, "sym": "zero"})), call("cholesky", A=S("Pz"))],
    "refuse_inv_cg_nonpsd": [PRE["D"], call("solve", A=S("D"), b=B, alg="CG", akw={"max_iters": 3}, x0=X0)],
    "refuse_chol_nonpsd": [PRE["D"], call("solve", A=S("D"), b=B, alg="Cholesky")],
    "refuse_eig_lanczos_nonsa": [PRE["D"], call("eig", A=S("D"), k=1, which="LM", alg="Lanczos", akw={"max_iters": 3}, v0=V0)],
    "refuse_diag_kron_k1": [mk("kron_b", {"k": "kron", "args": [D2, D2]}), call("diag_default", A=S("kron_b"), k=1)],
    "refuse_matvec_shape": [PRE["D"], call("matvec", A=S("D"), x=arr([N + 1], "f8", 61))],
    "refuse_product_shape": [PRE["D"], mk("bad_prod", {"k": "product", "args": [{"k": "ref", "slot": "D"}, D2]})],
    "refuse_sum_shape": [PRE["D"], mk("bad_sum", {"k": "add", "a": {"k": "ref", "slot": "D"}, "b": D2})],
    "refuse_chol_indef": [mk("Pi", _psd({"k": "dense", "n": N, "dtype": "f8", "seed": 44, "sym": "sym"})),
                          call("solve", A=S("Pi"), b=B, alg="Cholesky"), call("cholesky", A=S("Pi"))],
    "refuse_eig_which": [PRE["P"], call("eig", A=S("P"), k=1, which="XX")],
    "refuse_hutch_tol": [PRE["G"], call("hutch", A=S("G"), tol=1e-5, max_iters=1, key=1)],
    "refuse_identity_to_dtype": [PRE["I"], mk("bad_to", {"k": "to", "of": {"k": "ref", "slot": "I"}, "dtype": "f4"})],
    "mv_dense_f": [mk("Df", dict(DN, layout="f")), call("matvec", A=S("Df"), x=B), call("rmatvec", A=S("Df"), x=B)],
    "mv_dense_strided": [mk("Ds", dict(DN, layout="strided")), call("matvec", A=S("Ds"), x=B), call("rmatvec", A=S("Ds"), x=B),
                         mk("DsT", {"k": "T", "of": {"k": "ref", "slot": "Ds"}}), call("matvec", A=S("DsT"), x=B2)],
    "mv_dense_tview": [mk("Dt", dict(DN, layout="tview")), call("solve", A=S("Dt"), b=B2), call("plu", A=S("Dt"))],
    "tridiag_strided": [mk("T3s", {"k": "tridiag", "n": N, "seed": 21, "symm": False, "layout": "strided"}),
                        call("matvec", A=S("T3s"), x=B2), call("to_dense", A=S("T3s"))],
    "chol_psd_f": [mk("Pf", _psd(dict(SP, layout="f"))), call("cholesky", A=S("Pf")), call("solve", A=S("Pf"), b=B, alg="CG",
                                                                                       akw={"max_iters": 4})],
    "user_class_twice": [mk("Uc", {"k": "usercls", "n": N, "seed": 98}), mk("Ucf", {"k": "usercls", "n": N, "seed": 99, "fresh": True}),
                         mk("Ucp", {"k": "product", "args": [{"k": "ref", "slot": "Ucf"}, DN]}),
                         mk("Uca", {"k": "ann", "name": "PSD", "of": {"k": "ref", "slot": "Ucf"}}),
                         call("flatten", A=S("Ucp"))],
    "getitem": [PRE["D"], mk("a_gi", {"k": "getitem", "of": {"k": "ref", "slot": "D"}, "s0": [0, 2], "s1": None})],
    "nodisp": [PRE["P"], mk("a_nd", {"k": "no_dispatch", "of": {"k": "ref", "slot": "P"}})],
    # ---- actions on caller-owned arrays -------------------------------------------------------
    "matvec": [PRE["D"], call("matvec", A=S("D"), x=B)],
    "matmat_g": [PRE["Gn"], call("matvec", A=S("Gn"), x=B2)],
    "rmatvec_g": [PRE["Gn"], call("rmatvec", A=S("Gn"), x=B)],
    "dense_kron": [mk("kron_b", {"k": "kron", "args": [D2, D2]}), call("to_dense", A=S("kron_b"))],
    "diag_exact": [PRE["G"], call("diag_exact", A=S("G"))],
    "trace": [PRE["D"], call("trace_default", A=S("D"))],
    "hutch": [PRE["G"], call("hutch", A=S("G"), tol=0.2, max_iters=2, key=1)],
    "solve": [PRE["D"], call("solve", A=S("D"), b=B)],
    "solve_chol": [PRE["P"], call("solve", A=S("P"), b=B2, alg="Cholesky")],
    "solve_cg": [PRE["P"], call("solve", A=S("P"), b=B, alg="CG", akw={"max_iters": 5}, x0=X0)],
    "solve_cg_raise": [PRE["Pr"], call("solve", A=S("Pr"), b=B, alg="CG", akw={"max_iters": 5}, x0=X0, fx=RAISE1)],
    "solve_cg_probe": [PRE["Pr"], call("solve", A=S("Pr"), b=B, alg="CG", akw={"max_iters": 5}, x0=X0)],
    "solve_gmres": [PRE["D"], call("solve", A=S("D"), b=B, alg="GMRES", akw={"max_iters": 3}, x0=X0)],
    "inv_store": [PRE["D"], call("inv", out="R_inv", A=S("D"))],
    "inv_cg_store": [PRE["P"], call("inv", out="R_invcg", A=S("P"), alg="CG", akw={"max_iters": 5})],
    "use_inv_cg": [PRE["P"], call("inv", out="R_invcg", A=S("P"), alg="CG", akw={"max_iters": 5}),
                   call("matvec", A=S("R_invcg"), x=B)],
    "logdet": [PRE["P"], call("logdet", A=S("P"))],
    "exp_apply": [PRE["P"], call("unary_apply", A=S("P"), f="exp", x=B)],
    "sqrt_lanczos": [PRE["P"], call("unary_apply", A=S("P"), f="sqrt", alg="Lanczos", akw={"max_iters": 3}, v0=V0, x=B)],
    "sqrt_lanczos_store": [PRE["P"], call("unary", out="R_sqrt", A=S("P"), f="sqrt", alg="Lanczos", akw={"max_iters": 3}, v0=V0)],
    "use_sqrt_B": [PRE["P"], call("unary", out="R_sqrt", A=S("P"), f="sqrt", alg="Lanczos", akw={"max_iters": 3}, v0=V0),
                   call("matvec", A=S("R_sqrt"), x=B)],
    "use_sqrt_X0": [PRE["P"], call("unary", out="R_sqrt", A=S("P"), f="sqrt", alg="Lanczos", akw={"max_iters": 3}, v0=V0),
                    call("matvec", A=S("R_sqrt"), x=X0)],
    "use_inv_cg_X0": [PRE["P"], call("inv", out="R_invcg", A=S("P"), alg="CG", akw={"max_iters": 5}),
                      call("matvec", A=S("R_invcg"), x=X0)],
    "matvec_X0": [PRE["D"], call("matvec", A=S("D"), x=X0)],
    "matvec_sum_B": [mk("sum_b", {"k": "sum", "args": [DN, DG]}), call("matvec", A=S("sum_b"), x=B)],
    "matvec_sum_X0": [mk("sum_b", {"k": "sum", "args": [DN, DG]}), call("matvec", A=S("sum_b"), x=X0)],
    "algobj_cg_probe": [PRE["Pr"], {"op": "mkalg", "name": "g_cg", "cls": "CG", "kw": {"max_iters": 5, "x0": X0}},
                        call("solve", A=S("Pr"), b=B, alg={"algobj": "g_cg"})],
    "algobj_cg_block_raise": [PRE["Pr"], {"op": "mkalg", "name": "g_cg", "cls": "CG", "kw": {"max_iters": 5, "x0": X0}},
                              call("solve", A=S("Pr"), b=B2, alg={"algobj": "g_cg"}, fx=RAISE1)],
    "algobj_cg_dense_of_inv_raise": [PRE["Pr"], {"op": "mkalg", "name": "g_cg", "cls": "CG", "kw": {"max_iters": 5, "x0": X0}},
                                     call("inv", out="R_inv_g", A=S("Pr"), alg={"algobj": "g_cg"}),
                                     call("to_dense", A=S("R_inv_g"), fx=RAISE1)],
    "algobj_gmres": [PRE["D"], {"op": "mkalg", "name": "g_gm", "cls": "GMRES", "kw": {"max_iters": 3, "x0": X0}},
                     call("solve", A=S("D"), b=B, alg={"algobj": "g_gm"})],
    "algobj_lanczos": [PRE["P"], {"op": "mkalg", "name": "g_lz", "cls": "Lanczos", "kw": {"max_iters": 3, "start_vector": V0}},
                       call("eig", A=S("P"), k=2, which="LM", alg={"algobj": "g_lz"})],
    "flatten_inv_cg": [PRE["P"], call("inv", out="R_invcg", A=S("P"), alg="CG", akw={"max_iters": 5}),
                       call("flatten", A=S("R_invcg"))],
    "ann_used_inv": [PRE["P"], call("inv", out="R_invcg", A=S("P"), alg="CG", akw={"max_iters": 5}),
                     call("matvec", A=S("R_invcg"), x=B),
                     mk("a_psd_inv", {"k": "ann", "name": "PSD", "of": {"k": "ref", "slot": "R_invcg"}})],
    "eig": [PRE["P"], call("eig", A=S("P"), k=2, which="LM")],
    "eig_lanczos": [PRE["P"], call("eig", A=S("P"), k=2, which="LM", alg="Lanczos", akw={"max_iters": 3}, v0=V0)],
    "svd": [PRE["D"], call("svd", A=S("D"), k=2, which="LM")],
    "cholesky": [PRE["P"], call("cholesky", A=S("P"))],
    "plu": [PRE["D"], call("plu", A=S("D"))],
    "lanczos": [PRE["P"], call("lanczos", A=S("P"), v0=V0, max_iters=3)],
    "arnoldi_raise": [PRE["Prd"], call("arnoldi", A=S("Prd"), v0=V0, max_iters=3, fx=RAISE0)],
    "cg_reenter": [PRE["Pr"], dict(call("cg", A=S("Pr"), b=B, x0=X0, max_iters=3, fx=REENTER),
                                   menu=[{"fn": "cg", "args": {"A": S("Pr"), "b": B, "x0": X0, "max_iters": 3}}])],
    "nystrom": [PRE["P"], call("nystrom", out="R_nys", A=S("P"), rank=2, key=1)],
    "flatten_sum": [mk("sum_b", {"k": "sum", "args": [DN, DG]}), call("flatten", A=S("sum_b"))],
    "import_precond": [{"op": "import", "module": "cola.linalg.preconditioning.preconditioners"}],
}

# ---- products (right, left; vector, C- and Fortran-ordered blocks) on every operator kind -------------
KINDS = {  # name -> (slot, recipe, rows, cols)
    "dense": ("D", DN, N, N), "generic": ("Gn", GE2, N, N), "identity": ("I", ID, N, N), "diag": ("Dg", DG, N, N),
    "tridiag": ("T3", {"k": "tridiag", "n": N, "seed": 21, "symm": False}, N, N),
    "perm": ("Pm", {"k": "perm", "n": N, "seed": 22}, N, N),
    "perm_neg": ("Pmn", {"k": "perm", "n": N, "seed": 27, "neg": True}, N, N),
    "tri": ("Tr", {"k": "tri", "n": N, "seed": 23}, N, N),
    "sparse": ("Sp", {"k": "sparse", "n": N, "seed": 24}, N, N),
    "kernel": ("Ke", {"k": "kernel", "n": N, "seed": 25, "bs1": 1, "bs2": 2}, N, N),
    "householder": ("Hh", {"k": "householder", "n": N, "seed": 26}, N, N),
    "scalar": ("Sc", {"k": "scalar", "c": 2.0, "n": N}, N, N),
    "sum": ("sum_b", {"k": "sum", "args": [DN, DG]}, N, N),
    "prod": ("prod_b", {"k": "product", "args": [DN, DN2]}, N, N),
    "kron": ("kron_b", {"k": "kron", "args": [D2, D2]}, 4, 4),
    "kronsum": ("kronsum_b", {"k": "kronsum", "args": [D2, D2]}, 4, 4),
    "bd": ("bd_b", {"k": "blockdiag", "args": [D2, DG], "mult": [2, 1]}, 7, 7),
    "tr": ("tr_b", {"k": "transpose_cls", "of": DN}, N, N),
    "adj": ("adj_b", {"k": "adjoint_cls", "of": DG}, N, N),
    "sl": ("sl_b", {"k": "sliced_cls", "of": DN, "s0": [0, 2], "s1": [0, 2]}, 2, 2),
    "cat": ("cat_b", {"k": "concat", "args": [DN, DG], "axis": 0}, 6, N),
    "psd": ("P", _psd(SP), N, N),
    # pass-through (identity) factors in first / last position: their product IS the operand (aliasing hazards)
    "kronsum_if": ("ks_if", {"k": "kronsum", "args": [I2, D2]}, 4, 4),
    "kronsum_il": ("ks_il", {"k": "kronsum", "args": [D2, I2]}, 4, 4),
    "kron_if": ("kr_if", {"k": "kron", "args": [I2, D2]}, 4, 4),
    "kron_il": ("kr_il", {"k": "kron", "args": [D2, I2]}, 4, 4),
    "prod_if": ("pr_if", {"k": "product", "args": [ID, DN]}, N, N),
    "prod_il": ("pr_il", {"k": "product", "args": [DN, ID]}, N, N),
    "sum_if": ("su_if", {"k": "sum", "args": [ID, DN]}, N, N),
    "bd_if": ("bd_if", {"k": "blockdiag", "args": [I2, D2]}, 4, 4),
    "sliced_full": ("sl_full", {"k": "sliced_cls", "of": DN, "s0": [0, N], "s1": [0, N]}, N, N),
    # user operators whose product is a view of its argument, alone and as first / last part of every composite
    "flip": ("Fl", {"k": "userview", "n": N, "mode": "flip"}, N, N),
    "alias": ("Al", {"k": "userview", "n": N, "mode": "alias"}, N, N),
    "kronsum_flipf": ("ks_ff", {"k": "kronsum", "args": [{"k": "userview", "n": 2, "mode": "flip"}, D2]}, 4, 4),
    "kronsum_flipl": ("ks_fl", {"k": "kronsum", "args": [D2, {"k": "userview", "n": 2, "mode": "flip"}]}, 4, 4),
    "kronsum_aliasf": ("ks_af", {"k": "kronsum", "args": [{"k": "userview", "n": 2, "mode": "alias"}, D2]}, 4, 4),
    "kron_flipf": ("kr_ff", {"k": "kron", "args": [{"k": "userview", "n": 2, "mode": "flip"}, D2]}, 4, 4),
    "kron_aliasl": ("kr_al", {"k": "kron", "args": [D2, {"k": "userview", "n": 2, "mode": "alias"}]}, 4, 4),
    "sum_flipf": ("su_ff", {"k": "sum", "args": [{"k": "userview", "n": N, "mode": "flip"}, DN]}, N, N),
    "sum_aliasf": ("su_af", {"k": "sum", "args": [{"k": "userview", "n": N, "mode": "alias"}, DN, DG]}, N, N),
    "prod_flipf": ("pr_ff", {"k": "product", "args": [{"k": "userview", "n": N, "mode": "flip"}, DN]}, N, N),
    "prod_aliasl": ("pr_al", {"k": "product", "args": [DN, {"k": "userview", "n": N, "mode": "alias"}]}, N, N),
    "bd_flipf": ("bd_ff", {"k": "blockdiag", "args": [{"k": "userview", "n": 2, "mode": "flip"}, D2]}, 4, 4),
    "kron_single_identity": ("kr_1i", {"k": "kron", "args": [I2]}, 2, 2),
    # column-major and transposed-view payloads (what LAPACK wrappers may overwrite without a copy)
    "dense_f": ("Dfo", {"k": "dense", "n": N, "seed": 131, "sym": "gen", "layout": "f"}, N, N),
    "psd_f": ("Pfo", _psd({"k": "dense", "n": N, "seed": 132, "sym": "psd", "layout": "f"}), N, N),
    "psd_tview": ("Ptv", _psd({"k": "dense", "n": N, "seed": 133, "sym": "psd", "layout": "tview"}), N, N),
    "sa_f": ("Sfo", _sa({"k": "dense", "n": N, "seed": 134, "sym": "sym", "layout": "f"}), N, N),
    "psd_of_T": ("PoT", _psd({"k": "T", "of": {"k": "dense", "n": N, "seed": 135, "sym": "psd"}}), N, N),
    # every row / column selected, in another order; stepped selections (through the public A[...] indexing)
    "sl_rev": ("sl_rev", {"k": "getitem", "of": DN, "s0": [None, None, -1], "s1": None}, N, N),
    "sl_rev_cols": ("sl_revc", {"k": "getitem", "of": DN, "s0": None, "s1": [None, None, -1]}, N, N),
    "sl_rev_part": ("sl_revp", {"k": "getitem", "of": DN, "s0": [None, None, -1], "s1": [1, N]}, N, N - 1),
    "sl_rev_both": ("sl_revb", {"k": "getitem", "of": DG, "s0": [None, None, -1], "s1": [None, None, -1]}, N, N),
    "sl_step2": ("sl_st2", {"k": "getitem", "of": DN, "s0": [0, N, 2], "s1": None}, (N + 1) // 2, N),
    "scalar_one": ("sc_one", {"k": "scalar", "c": 1.0, "n": N}, N, N),
    "tr_identity": ("tr_id", {"k": "transpose_cls", "of": ID}, N, N),
    # singular structured operators: exact zeros / round-off-level entries on a diagonal (a mask, the spectrum of a rank-deficient
    # matrix), a zero scalar multiple, composites with such a part -- what "robust" pseudo-inverses, square roots and logs special-case
    "diag_mask": ("Dgm", {"k": "diag", "n": N, "dtype": "f8", "seed": 141, "vals": "mask"}, N, N),
    "diag_tiny": ("Dgt", {"k": "diag", "n": N, "dtype": "f8", "seed": 142, "vals": "tiny"}, N, N),
    "diag_mask_c16": ("Dgmc", {"k": "diag", "n": N, "dtype": "c16", "seed": 143, "vals": "mask"}, N, N),
    "psd_diag_mask": ("Pdm", _psd({"k": "diag", "n": N, "dtype": "f8", "seed": 144, "vals": "mask"}), N, N),
    "scalar_zero": ("sc_zero", {"k": "scalar", "c": 0.0, "n": N}, N, N),
    "bd_mask": ("bd_m", {"k": "blockdiag", "args": [D2, {"k": "diag", "n": 2, "dtype": "f8", "seed": 145, "vals": "mask"}]}, 4, 4),
    "kron_mask": ("kr_m", {"k": "kron", "args": [{"k": "diag", "n": 2, "dtype": "f8", "seed": 146, "vals": "mask"}, D2]}, 4, 4),
    "prod_mask": ("pr_m", {"k": "product", "args": [{"k": "diag", "n": N, "dtype": "f8", "seed": 147, "vals": "tiny"}, DN]}, N, N),
    # user-defined operator classes (the class definition is re-executed for "fresh": new class, same qualified name)
    "usercls": ("Uc", {"k": "usercls", "n": N, "seed": 98}, N, N),
    "usercls_fresh": ("Ucf", {"k": "usercls", "n": N, "seed": 99, "fresh": True}, N, N),
    # complex and single-precision payloads (operand dtype = operator dtype: no promotion copy is made)
    "dense_c16": ("Dc", {"k": "dense", "n": N, "dtype": "c16", "seed": 91, "sym": "gen"}, N, N),
    "psd_c16": ("Pc", _psd({"k": "dense", "n": N, "dtype": "c16", "seed": 92, "sym": "psd"}), N, N),
    "diag_c16": ("Dgc", {"k": "diag", "n": N, "dtype": "c16", "seed": 93, "pos": False}, N, N),
    "adj_c16": ("Adc", {"k": "adjoint_cls", "of": {"k": "generic", "n": N, "dtype": "c16", "seed": 94, "sym": "gen"}}, N, N),
    "sa_c16": ("Sac", _sa({"k": "generic", "n": N, "dtype": "c16", "seed": 95, "sym": "psd"}), N, N),
    "dense_f4": ("Df4", {"k": "dense", "n": N, "dtype": "f4", "seed": 96, "sym": "gen"}, N, N),
    "psd_f4": ("Pf4", _psd({"k": "dense", "n": N, "dtype": "f4", "seed": 97, "sym": "psd"}), N, N),
    # several array parameters of different precision (the operator's dtype is that of ONE of them)
    "tridiag_mixed": ("T3m", {"k": "tridiag", "n": N, "dtype": "f4", "offdt": "f8", "seed": 121, "symm": False}, N, N),
    "tridiag_herm_mixed": ("T3h", {"k": "tridiag", "n": N, "dtype": "f4", "offdt": "c8", "seed": 122, "symm": False}, N, N),
    "kernel_mixed": ("Kem", {"k": "kernel", "n": N, "dtype": "f4", "x2dt": "f8", "same": False, "seed": 123, "bs1": 1, "bs2": 2},
                     N, N),
}
KIND_DTYPE = {"dense_c16": "c16", "psd_c16": "c16", "diag_c16": "c16", "diag_mask_c16": "c16", "adj_c16": "c16", "sa_c16": "c16",
              "dense_f4": "f4", "psd_f4": "f4", "fft": "c16", "tridiag_mixed": "f4", "tridiag_herm_mixed": "f4",
              "kernel_mixed": "f4"}
for _k, (_slot, _r, _rows, _cols) in KINDS.items():
    _dt = KIND_DTYPE.get(_k, "f8")
    ALPHABET["mv_" + _k] = [mk(_slot, _r), call("matvec", A=S(_slot), x=arr([_cols], _dt, 31))]
    ALPHABET["mmf_" + _k] = [mk(_slot, _r), call("matvec", A=S(_slot), x=arr([_cols, 2], _dt, 32, layout="f"))]
    ALPHABET["rmv_" + _k] = [mk(_slot, _r), call("rmatvec", A=S(_slot), x=arr([_rows], _dt, 33))]
    ALPHABET["rmm_" + _k] = [mk(_slot, _r), call("rmatvec", A=S(_slot), x=arr([2, _rows], _dt, 34))]
    ALPHABET["mm3_" + _k] = [mk(_slot, _r), call("matvec", A=S(_slot), x=arr([_cols, 3], _dt, 37))]
    ALPHABET["rmm3_" + _k] = [mk(_slot, _r), call("rmatvec", A=S(_slot), x=arr([3, _rows], _dt, 38))]
ALPHABET.update({
    "rsolve_chol": [PRE["P"], call("rsolve", A=S("P"), b=B, alg="Cholesky")],
    "rsolve_lu": [PRE["D"], call("rsolve", A=S("D"), b=arr([2, N], "f8", 35))],
    "rmv_inv_tri": [mk("Tr", {"k": "tri", "n": N, "seed": 23}), call("inv", out="R_tri", A=S("Tr")),
                    call("rmatvec", A=S("R_tri"), x=B)],
    "rmm_inv_tri": [mk("Tr", {"k": "tri", "n": N, "seed": 23}), call("inv", out="R_tri", A=S("Tr")),
                    call("rmatvec", A=S("R_tri"), x=arr([2, N], "f8", 35))],
    "mmf_invT_tri": [mk("Tr", {"k": "tri", "n": N, "seed": 23}), call("inv", out="R_tri", A=S("Tr")),
                     mk("R_triT", {"k": "T", "of": {"k": "ref", "slot": "R_tri"}}),
                     call("matvec", A=S("R_triT"), x=arr([N, 2], "f8", 36, layout="f"))],
})

# sibling classes of one parametric family of routine-manufactured operators, one holding arrays in its options (a caller-supplied start
# vector), the other only numbers -- in both orders, with the array-less one flattened before and after the other exists
def _u(slot, f, alg, out, v0=None):
    c = call("unary", out=out, A=S(slot), f=f, alg=alg, akw={"max_iters": 3})
    if v0 is not None:
        c["args"]["v0"] = v0
    return c


for _alg_, _slot_ in (("Arnoldi", "D"), ("Lanczos", "P")):
    _pl = [_u(_slot_, "sqrt", _alg_, "U_%s_pl" % _alg_), call("flatten", A=S("U_%s_pl" % _alg_))]
    _sv = [_u(_slot_, "exp", _alg_, "U_%s_sv" % _alg_, V0), call("flatten", A=S("U_%s_sv" % _alg_))]
    ALPHABET["flatten_unary_%s_plain" % _alg_.lower()] = [PRE[_slot_]] + _pl
    ALPHABET["flatten_unary_%s_startvec" % _alg_.lower()] = [PRE[_slot_]] + _sv
    ALPHABET["flatten_unary_%s_startvec_then_plain" % _alg_.lower()] = [PRE[_slot_]] + _sv + _pl
    ALPHABET["flatten_unary_%s_plain_then_startvec" % _alg_.lower()] = [PRE[_slot_]] + _pl + _sv + [call("flatten", A=S("U_%s_pl" % _alg_))]

# an ABORTED product inside a composite whose part is a user operator (the user's matmat raises), then the ordinary products of
# the same kind of composite on plain operands: whatever the aborted product left behind (a module-level scratch buffer, a
# half-restored attribute) must not reach them.  The results are compared across histories with the mv_/mm3_ letters' own.
def _probeify(rec, pid=2):
    """(recipe with its first array-bearing leaf replaced by a user operator around it, found?)"""
    import copy
    rec = copy.deepcopy(rec)
    done = [False]

    def visit(o):
        if done[0] or not isinstance(o, dict):
            return o
        if o.get("k") in ("dense", "generic", "diag", "tridiag") and not done[0]:
            done[0] = True
            return {"k": "probe", "inner": o, "pid": pid}
        for key in ("of", "a", "b", "inner"):
            if key in o:
                o[key] = visit(o[key])
        if "args" in o:
            o["args"] = [visit(a) for a in o["args"]]
        return o

    return visit(rec), done[0]


def _shift_selection(rec):
    import copy
    r = copy.deepcopy(rec)
    if r.get("k") == "sliced_cls" and r["s0"][0] == 0 and r["s0"][1] < N:
        r["s0"] = [r["s0"][0] + 1, r["s0"][1] + 1]
        r["s1"] = [r["s1"][0] + 1, r["s1"][1] + 1]
        return r
    return None


for _k in ("sum", "prod", "kron", "kronsum", "bd", "tr", "adj", "sl", "cat", "sliced_full", "sl_rev", "sl_rev_part", "sl_step2", "psd", "prod_il",
           "sum_if", "kron_il", "kronsum_il"):
    _slot, _r, _rows, _cols = KINDS[_k]
    _pr, _ok = _probeify(_r)
    if not _ok:
        continue
    _dt = KIND_DTYPE.get(_k, "f8")
    _variants = [("", _pr)] + ([("_shifted", _probeify(_shift_selection(_r))[0])] if _shift_selection(_r) else [])
    for _sfx, _rec in _variants:
        ALPHABET["products_after_abort_%s%s" % (_k, _sfx)] = (
            [mk("ab_" + _slot, _rec), call("matvec", A=S("ab_" + _slot), x=arr([_cols, 3], _dt, 39), fx=RAISE0),
             call("rmatvec", A=S("ab_" + _slot), x=arr([3, _rows], _dt, 40), fx=RAISE0)]
            + ALPHABET["mv_" + _k] + ALPHABET["mm3_" + _k][1:] + ALPHABET["rmm3_" + _k][1:] + ALPHABET["rmv_" + _k][1:])

# reduced alphabet for the length-3 level (one representative per mechanism)
ALPHABET3 = ["mk_dense", "mk_identity", "mk_generic", "mk_probe", "sum_b", "sum_l", "prod_b", "prod_l", "kron_b", "kron_l",
             "bd_b", "bd_l", "tr_l", "tr_b", "sl_b", "sl_l", "sumsl_b", "sumsl_l", "prodsl_b", "prodsl_l", "alg_ata",
             "ann_psd", "ann_psd_over_sa", "to_f4", "matvec", "rmatvec_g", "solve_chol", "solve_cg", "solve_cg_raise",
             "use_inv_cg", "use_inv_cg_X0", "use_sqrt_B", "use_sqrt_X0", "matvec_sum_B", "matvec_sum_X0", "eig_lanczos",
             "cg_reenter", "flatten_sum", "hutch", "import_precond", "algobj_cg_probe", "algobj_cg_block_raise",
             "algobj_cg_dense_of_inv_raise", "rsolve_chol", "rmv_inv_tri", "algobj_hutch_kron", "flatten_inv_cg", "ann_used_inv", "mm3_sl", "rmm3_sl",
             "mm3_kron", "rmm3_kron", "to_f4_kron_l", "chol_singular", "refuse_inv_cg_nonpsd", "refuse_chol_indef",
             "mv_dense_strided", "user_class_twice"]


def history(letters):
    steps = []
    import copy
    for L in letters:
        for st in ALPHABET[L]:
            c = copy.deepcopy(st)
            c["id"] = len(steps)
            steps.append(c)
    return {"property": "C18", "run_seed": 0, "rng0": 5, "config": {"letters": list(letters)}, "mode": "explicit",
            "steps": steps}


def quick_pair_alphabet(seed, size=32):
    """Quick tier: all ordered pairs over a `size`-letter sub-alphabet of the reduced alphabet, rotated by the seed."""
    names = sorted(ALPHABET3)
    off = (seed * 5) % len(names)
    return sorted((names + names)[off:off + size])


PAIR_CORE_KINDS = ("dense", "generic", "identity", "diag", "tridiag", "perm", "tri", "kernel", "scalar", "sum", "prod", "kron", "kronsum",
                   "bd", "tr", "adj", "sl", "cat", "psd", "kronsum_if", "kron_il", "prod_if", "sum_if", "sliced_full", "flip", "alias",
                   "sl_rev", "usercls", "dense_c16", "dense_f4", "diag_mask", "tridiag_mixed")


def pair_alphabet():
    """Thorough tier, length 2: the full alphabet except that the six per-kind product letters (mv_/mmf_/rmv_/rmm_/mm3_/rmm3_<kind>,
    6 x 76 letters) are taken for a core set of kinds only -- the pair level grows with the square of the alphabet."""
    bulk = ("mv_", "mmf_", "rmv_", "rmm_", "mm3_", "rmm3_", "products_after_abort_")
    out = []
    for L in sorted(ALPHABET):
        pre = [b for b in bulk if L.startswith(b)]
        if pre and L[len(pre[0]):] in KINDS and L[len(pre[0]):] not in PAIR_CORE_KINDS:
            continue
        out.append(L)
    return out


def sweep_histories(maxlen, full_pairs=True, seed=0):
    """length 1: full alphabet; length 2: pair alphabet (thorough) or reduced alphabet (quick);
    length 3: reduced alphabet."""
    names = sorted(ALPHABET)
    for L in names:
        yield (L, )
    if maxlen >= 2:
        two = pair_alphabet() if full_pairs else quick_pair_alphabet(seed, size=30)
        for a, b in itertools.product(two, two):
            yield (a, b)
    if maxlen >= 3:  # 44 of the 58 letters of the reduced alphabet, rotated by the seed (58^3 = 195 k histories took too long)
        for t in itertools.product(quick_pair_alphabet(seed, size=44), repeat=3):
            yield t


def phase_sweep(run, pool, maxlen):
    """Every history of <= maxlen letters, each in its own pristine child.  Besides the in-run
    invariants, the result of every call must be the same in EVERY history (history independence)."""
    t = time.time()
    table = {}  # call key digest -> (outcome digest, letters)
    n = [0]
    conflicts = []

    def on(job, res):
        run.absorb(job, res)
        n[0] += 1
        for key, dig in (res.get("call_results") or {}).items():
            prev = table.get(key)
            if prev is None:
                table[key] = (dig, job["letters"], job["program"])
            elif prev[0] != dig and len(conflicts) < 5:
                conflicts.append((key, prev, (dig, job["letters"], job["program"])))

    large = large_programs_c18(heavy=maxlen >= 3) + matrix_programs_c18()

    def all_jobs():
        for j, p in enumerate(large):
            tag = ("matrix:" if p["program"]["config"].get("matrix") else "large:") + p["name"]
            yield {"id": "L%d" % j, "kind": "program", "program": dict(p["program"], want_results=True), "letters": [tag],
                   "want_program": False, "deadline": 240, "run_seed": tag}
        for i, L in enumerate(sweep_histories(maxlen, full_pairs=maxlen >= 3, seed=run.seed)):
            yield {"id": i, "kind": "program", "program": history(L), "letters": list(L), "want_program": False,
                   "want_results": True, "deadline": 240, "run_seed": "sweep:" + "+".join(L)}

    jobs = all_jobs()
    pool.run(jobs, on, stop_flag=lambda: len(run.violations) >= 5 or len(run.harness) >= 5 or len(conflicts) >= 3)
    for key, a, b in conflicts[:2]:
        pa, prog = dict(a[2], want_results=True), dict(b[2], want_results=True)
        run.violations.append(({"kind": "program", "run_seed": "sweep:" + "+".join(b[1]), "id": -1},
                               {"status": "violation", "program": None, "events_digest": None,
                                "violation": {"property": "C18", "invariant": "I-HISTORY", "step": None, "detail": {
                                    "what": "the same call on the same operands returned different results in two histories",
                                    "call": key, "history_a": a[1], "history_b": b[1]}},
                                "pair": [pa, prog]}))
    run.phase_info["exhaustive_sweep"] = {
        "alphabet_size": len(ALPHABET), "reduced_alphabet_size": len(ALPHABET3), "max_length": maxlen, "histories": n[0],
        "exhaustive": True,
        "exhaustive_over": ("all 1-letter histories of the full alphabet, all 2-letter histories of the %s alphabet%s"
                            % ("%d-letter pair" % len(pair_alphabet()) if maxlen >= 3 else "seed-rotated 30-letter sub-", ", all 3-letter histories of a seed-rotated 44-letter sub-alphabet of the reduced alphabet"
                               if maxlen >= 3 else "")), "distinct_calls_compared_across_histories": len(table),
        "large_programs": len(large_programs_c18()), "function_x_kind_matrix_programs": len(matrix_programs_c18()),
        "history_independence_conflicts": len(conflicts),
        "wall_s": round(time.time() - t, 1)}
    run.stats["sweep_histories"] += n[0]


def crash_programs_c18(verif_seed, tier):
    """Every letter (and, thorough tier, every letter after every predecessor of the reduced alphabet):
    each allocation point of the letter's LAST step is failed once; afterwards the step is re-issued
    fault-free and must equal the twin's reference."""
    import copy
    out = []
    names = sorted(ALPHABET)

    def prog_for(letters):
        p = history(letters)
        last = p["steps"][-1]
        if last["op"] not in ("make", "call"):
            return None
        target = last["id"]
        rep = copy.deepcopy(last)
        rep.pop("x", None)
        if rep["op"] == "make":
            rep["slot"] = rep["slot"] + "_again"
        rep["id"] = len(p["steps"])
        rep["repeat_of"] = target
        p["steps"].append(rep)
        return {"program": p, "target": target, "name": "+".join(letters)}

    for L in names:
        pr = prog_for((L, ))
        if pr:
            out.append(pr)
    if tier == "thorough":
        for a in sorted(ALPHABET3):
            for b in sorted(ALPHABET3):
                pr = prog_for((a, b))
                if pr:
                    out.append(pr)
    return out


def line_crash_programs_c18(tier):
    """Line-level crash points inside a history: every letter is executed once without interruption (reference pass); then one of
    its calls is issued again and cut short by an asynchronous interrupt at a source line (the enumeration target); then ALL its
    calls are issued again, starting with the one after the interrupted call (second pass) -- each must return what it returned in
    the reference pass, and every invariant must hold.  Self-contained: the replay needs no outside reference."""
    import copy
    out = []
    for L in sorted(ALPHABET):
        base = history((L, ))
        calls = [s for s in base["steps"] if s["op"] == "call"]
        if not calls:
            continue
        # the interrupted call: prefer calls on different operands (first, last, middle)
        picks = sorted({0, len(calls) - 1, len(calls) // 2})
        for t in picks if tier == "thorough" else picks[:2]:
            p = copy.deepcopy(base)
            nid = len(p["steps"])
            tgt = copy.deepcopy(calls[t])
            tgt.pop("x", None)
            tgt.pop("out", None)
            tgt["id"] = nid
            tgt["repeat_of"] = calls[t]["id"]
            p["steps"].append(tgt)
            order = calls[t + 1:] + calls[:t + 1]
            for j, c in enumerate(order):
                r = copy.deepcopy(c)
                r.pop("out", None)
                r.pop("x", None)  # the second pass is fault-free (an ordinary exception may trigger clean-up that hides the damage)
                r["id"] = nid + 1 + j
                r["repeat_of"] = c["id"]
                p["steps"].append(r)
            p["config"] = {"letters": [L], "line_crash": t}
            out.append({"program": p, "target": nid, "name": "%s@call%d" % (L, t)})
    return out


# =========================================================================================
# Differential histories: the same seeded history with a random subset of its steps removed.
# In a purely functional API every call that is present in both must return the identical result.
# =========================================================================================
def _refs(obj, out):
    if isinstance(obj, dict):
        for k in ("slot", "algobj"):
            if k in obj and isinstance(obj[k], str):
                out.add(obj[k])
        for v in obj.values():
            _refs(v, out)
    elif isinstance(obj, list):
        for v in obj:
            _refs(v, out)
    return out


def thinned(prog, g):
    """Either a random subset of the steps, or (half of the time) ONE call in isolation: only the steps that
    produce the operands it needs (transitively) are kept."""
    import copy
    p = copy.deepcopy(prog)
    steps = p["steps"]
    calls = [s for s in steps if s["op"] == "call"]
    if calls and g.random() < 0.5:
        producer = {}
        for s in steps:
            if s["op"] == "make":
                producer.setdefault(s["slot"], s)
            elif s["op"] == "mkalg":
                producer.setdefault(s["name"], s)
            elif s["op"] == "call" and s.get("out"):
                producer.setdefault(s["out"], s)
        target = g.choice(calls)
        need, todo = {target["id"]}, [target]
        while todo:
            s = todo.pop()
            for name in _refs({k: v for k, v in s.items() if k in ("args", "recipe", "kw")}, set()):
                d = producer.get(name)
                if d is not None and d["id"] not in need and d["id"] < s["id"]:
                    need.add(d["id"])
                    todo.append(d)
        p["steps"] = [s for s in steps if s["id"] in need or s["op"] == "import"]
        return p
    keep = []
    for st in steps:
        if st["op"] == "import":
            keep.append(st)  # importing an optional module may legitimately add dispatch rules
        elif st["op"] == "make":
            if g.random() < 0.85:
                keep.append(st)
        elif g.random() < 0.7:
            keep.append(st)
    p["steps"] = keep
    return p


def phase_diff(run, pool, budget_s):
    import random
    from .program import derive_seed, generate
    t = time.time()
    pairs = {}
    conflicts = []
    n = [0]

    def jobs():
        i = 0
        while True:
            rs = derive_seed(run.seed, "C18-diff", run.tier, i)
            full = generate("C18", rs, run.tier, {"faults": False})
            full["want_results"] = True
            for st in full["steps"]:
                st.pop("plan", None)
            thin = thinned(full, random.Random(rs ^ 0x5DEECE66D))
            for tag, prog in (("full", full), ("thin", thin)):
                yield {"id": "%d:%s" % (i, tag), "pair": i, "tag": tag, "kind": "program", "program": prog,
                       "want_program": False, "deadline": 240, "run_seed": rs}
            i += 1

    progs = {}

    def on(job, res):
        run.absorb(job, res)
        d = pairs.setdefault(job["pair"], {})
        d[job["tag"]] = res.get("call_results") or {}
        progs.setdefault(job["pair"], {})[job["tag"]] = job["program"]
        if len(d) == 2:
            n[0] += 1
            common = set(d["full"]) & set(d["thin"])
            run.stats["diff_calls_compared"] += len(common)
            for key in sorted(common):
                if d["full"][key] != d["thin"][key] and len(conflicts) < 3:
                    conflicts.append((key, progs[job["pair"]]["thin"], progs[job["pair"]]["full"], job["run_seed"]))
            pairs.pop(job["pair"], None)
            progs.pop(job["pair"], None)

    pool.run(jobs(), on, deadline_s=budget_s,
             stop_flag=lambda: len(run.violations) >= 5 or len(run.harness) >= 5 or len(conflicts) >= 2)
    for key, pa, pb, rs in conflicts[:2]:
        for p in (pa, pb):
            p.setdefault("config", {})["letters"] = ["seed %s %s" % (rs, "thinned" if p is pa else "full")]
        run.violations.append(({"kind": "program", "run_seed": "diff:%s" % rs, "id": -1},
                               {"status": "violation", "program": None, "events_digest": None, "pair": [pa, pb],
                                "violation": {"property": "C18", "invariant": "I-HISTORY", "step": None, "detail": {
                                    "what": "the same call on the same operands returned a different result after steps "
                                            "were removed from the history before it",
                                    "call": key, "history_a": "thinned history of seed %s" % rs,
                                    "history_b": "full history of seed %s" % rs}}}))
    run.phase_info["differential_histories"] = {"pairs": n[0], "calls_compared": int(run.stats.get("diff_calls_compared", 0)),
                                                "conflicts": len(conflicts), "wall_s": round(time.time() - t, 1)}


# =========================================================================================
# Large programs (C18): sizes at which buffers/workspaces are typically pooled (n = 300, default max_iters of the
# algorithm classes, i.e. Krylov bases with >= 2**18 entries) on cheap banded/diagonal operators: the same routine is
# run on two different operators / arrays of equal shape and every result of the first call is still held.
# =========================================================================================
def large_programs_c18(n=300, heavy=False):
    out = []
    D1 = _psd({"k": "diag", "n": n, "dtype": "f8", "seed": 71})
    D2 = _psd({"k": "diag", "n": n, "dtype": "f8", "seed": 72})
    T1 = _sa({"k": "tridiag", "n": n, "dtype": "f8", "seed": 73, "symm": True})
    T2 = {"k": "tridiag", "n": n, "dtype": "f8", "seed": 74, "symm": False}
    T3 = _sa({"k": "tridiag", "n": n, "dtype": "f8", "seed": 79, "symm": True})
    va, vb = arr([n], "f8", 75), arr([n], "f8", 76)
    ba, bb = arr([n, 2], "f8", 77), arr([n, 2], "f8", 78)

    def prog(name, first, second):
        steps = [mk("L1", first[0]), mk("L2", second[0]), first[1], second[1],
                 dict(first[1], repeat_of=2)]
        for j, s in enumerate(steps):
            s = steps[j] = dict(s)
            s["id"] = j
        out.append({"name": name, "program": {"property": "C18", "run_seed": 0, "rng0": 4, "config": {"large": name},
                                              "mode": "explicit", "steps": steps}})

    prog("Arnoldi_call", (T2, call("Arnoldi_call", A=S("L1"), v0=va)), (T1, call("Arnoldi_call", A=S("L2"), v0=vb)))
    prog("arnoldi_default", (T2, call("arnoldi", A=S("L1"), v0=va)), (T1, call("arnoldi", A=S("L2"), v0=vb)))
    prog("Lanczos_call", (T1, call("Lanczos_call", A=S("L1"), v0=va)), (D2, call("Lanczos_call", A=S("L2"), v0=vb)))
    prog("eig_arnoldi", (T2, call("eig", A=S("L1"), k=2, which="LM", alg="Arnoldi", v0=va)),
         (T1, call("eig", A=S("L2"), k=2, which="LM", alg="Arnoldi", v0=vb)))
    prog("eig_lanczos", (T1, call("eig", A=S("L1"), k=2, which="LM", alg="Lanczos", v0=va)),
         (T3, call("eig", A=S("L2"), k=2, which="LM", alg="Lanczos", v0=vb)))
    prog("cg", (D1, call("cg", A=S("L1"), b=ba, max_iters=20)), (D2, call("cg", A=S("L2"), b=bb, max_iters=20)))
    prog("gmres", (T2, call("gmres", A=S("L1"), b=va, max_iters=20)), (T1, call("gmres", A=S("L2"), b=vb, max_iters=20)))
    prog("solve_gmres_default", (T2, call("solve", A=S("L1"), b=va, alg="GMRES", akw={"max_iters": 30})),
         (T1, call("solve", A=S("L2"), b=vb, alg="GMRES", akw={"max_iters": 30})))
    prog("sqrt_lanczos_apply", (D1, call("unary_apply", A=S("L1"), f="sqrt", alg="Lanczos", akw={"max_iters": 20}, x=va)),
         (D2, call("unary_apply", A=S("L2"), f="sqrt", alg="Lanczos", akw={"max_iters": 20}, x=vb)))
    prog("exp_arnoldi_apply", (T2, call("unary_apply", A=S("L1"), f="exp", alg="Arnoldi", akw={"max_iters": 20}, x=va)),
         (T1, call("unary_apply", A=S("L2"), f="exp", alg="Arnoldi", akw={"max_iters": 20}, x=vb)))
    prog("diag_exact", (T2, call("diag_exact", A=S("L1"), k=1)), (T1, call("diag_exact", A=S("L2"), k=1)))
    prog("power_iteration", (T1, call("power_iteration", A=S("L1"), max_iter=20, key=1)),
         (D2, call("power_iteration", A=S("L2"), max_iter=20, key=1)))
    prog("nystrom", (D1, call("nystrom", A=S("L1"), rank=4, key=1)), (D2, call("nystrom", A=S("L2"), rank=4, key=1)))
    # prod(shape) > 1e6: Auto() takes its iterative branches (CG, Lanczos, power iteration, Hutchinson) with default settings
    m = 1001
    # user operators (no structural rule applies) computing a diagonal product
    E1 = _psd({"k": "no_dispatch", "of": {"k": "diag", "n": m, "dtype": "f8", "seed": 81}})
    E2 = _psd({"k": "no_dispatch", "of": {"k": "diag", "n": m, "dtype": "f8", "seed": 82}})
    wa, wb = arr([m], "f8", 83), arr([m], "f8", 84)
    prog("solve_auto_large", (E1, call("solve", A=S("L1"), b=wa)), (E2, call("solve", A=S("L2"), b=wb)))
    prog("solve_auto_large_tol", (E1, call("solve", A=S("L1"), b=wa, alg="Auto", akw={"tol": 1e-3, "max_iters": 5})),
         (E2, call("solve", A=S("L2"), b=wb, alg="Auto", akw={"tol": 1e-3, "max_iters": 5})))
    prog("sqrt_auto_large", (E1, call("unary_apply", A=S("L1"), f="sqrt", alg="Auto", akw={"max_iters": 5}, x=wa)),
         (E2, call("unary_apply", A=S("L2"), f="sqrt", alg="Auto", akw={"max_iters": 5}, x=wb)))
    prog("eig_auto_large", (E1, call("eig", A=S("L1"), k=1, which="LM")), (E2, call("eig", A=S("L2"), k=1, which="LM")))
    prog("pinv_auto_large", (E1, call("pinv_solve", A=S("L1"), b=wa, alg="Auto", akw={"max_iters": 5})),
         (E2, call("pinv_solve", A=S("L2"), b=wb, alg="Auto", akw={"max_iters": 5})))
    prog("diag_exact_large", (E1, call("diag_exact", A=S("L1"), k=-1)), (E2, call("diag_exact", A=S("L2"), k=-1)))
    # nesting at mid size: the user operator's product itself calls cola on ANOTHER operator of the same size and dtype
    # (a workspace shared between the outer and the inner call would be overwritten); afterwards the same call, not nested
    for nn in (230, 320):
        Pn = _psd({"k": "probe", "inner": {"k": "tridiag", "n": nn, "dtype": "f8", "seed": 91, "symm": True}, "pid": 0})
        Kn = {"k": "no_dispatch", "of": {"k": "tridiag", "n": nn, "dtype": "f8", "seed": 92, "symm": False}}
        vn, bn = arr([nn], "f8", 93), arr([nn, 2], "f8", 94)
        for name, outer, inner in [
                ("diag_exact_in_diag_exact", call("diag_exact", A=S("L1"), k=0), call("diag_exact", A=S("L2"), k=0)),
                ("trace_exact_in_diag_exact", call("diag_exact", A=S("L1"), k=0), call("trace_exact", A=S("L2"))),
                ("diag_exact_in_trace_exact", call("trace_exact", A=S("L1")), call("diag_exact", A=S("L2"), k=1)),
                ("to_dense_in_to_dense", call("to_dense", A=S("L1")), call("to_dense", A=S("L2"))),
                ("cg_in_cg", call("cg", A=S("L1"), b=bn, max_iters=6), call("cg", A=S("L2"), b=bn, max_iters=6)),
                ("gmres_in_cg", call("cg", A=S("L1"), b=vn, max_iters=6), call("gmres", A=S("L2"), b=vn, max_iters=6)),
                ("lanczos_in_lanczos", call("lanczos", A=S("L1"), v0=vn, max_iters=8), call("lanczos", A=S("L2"), v0=vn, max_iters=8)),
                ("arnoldi_in_arnoldi", call("arnoldi", A=S("L1"), v0=vn, max_iters=8), call("arnoldi", A=S("L2"), v0=vn, max_iters=8)),
                ("matvec_in_matvec", call("matvec", A=S("L1"), x=bn), call("matvec", A=S("L2"), x=bn))]:
            for at in (0, 1):
                nested = dict(copy.deepcopy(outer), x={"cb": {str(at): ["reenter", 0]}}, menu=[copy.deepcopy(inner)])
                steps = [mk("L1", Pn), mk("L2", Kn), nested, dict(copy.deepcopy(outer), repeat_of=2), copy.deepcopy(inner)]
                for j, st in enumerate(steps):
                    st["id"] = j
                out.append({"name": "nested/%s/n=%d/at=%d" % (name, nn, at),
                            "program": {"property": "C18", "run_seed": 0, "rng0": 4, "config": {"large": "nested/" + name},
                                        "mode": "explicit", "steps": steps}})
    # class floods: more than a thousand concrete classes of one parametric family are created in the process (a long-running
    # session), then constructions and calls made BEFORE the flood are repeated on operators built from the same recipes
    XS = {"k": "sum", "args": [DN, DG]}
    for fam, rec in [("product", {"k": "matmul", "a": {"k": "T", "of": XS}, "b": XS}),
                     ("sum", {"k": "add", "a": DN, "b": DG}),
                     ("kron", {"k": "kron_fn", "a": D2, "b": DG}),
                     ("transpose", {"k": "T", "of": XS}),
                     ("blockdiag", {"k": "block_diag_fn", "args": [D2, DG]})]:
        obs = lambda slot: [call("flatten", A=S(slot)), call("isa", A=S(slot), name="PSD"), call("to_dense", A=S(slot)),  # noqa: E731
                            call("eig", A=S(slot), k=1, which="LM"), call("diag_default", A=S(slot), k=0)]
        steps = [mk("B1", rec)] + obs("B1") + [mk("Fl", {"k": "flood", "family": fam, "count": 1200}), mk("B2", rec)] + obs("B2")
        steps = copy.deepcopy(steps)
        for j, st in enumerate(steps):
            st["id"] = j
        out.append({"name": "flood/%s" % fam,
                    "program": {"property": "C18", "run_seed": 0, "rng0": 4, "config": {"large": "flood/" + fam},
                                "mode": "explicit", "steps": steps}})
    # options given ONCE through an Auto object must not become the defaults of later calls: default call, the same entry
    # point with Auto(options) on another operand, the default call again (n = 1001: Auto takes its iterative branches)
    m_ = 1001
    La = _psd({"k": "no_dispatch", "of": {"k": "diag", "n": m_, "dtype": "f8", "seed": 85}})
    Lb = _psd({"k": "no_dispatch", "of": {"k": "diag", "n": m_, "dtype": "f8", "seed": 86}})
    wv = arr([m_], "f8", 87)
    for ename, dflt, withopts in [
            ("solve", call("solve", A=S("La"), b=wv), call("solve", A=S("Lb"), b=wv, alg="Auto", akw={"max_iters": 2, "tol": 1e-2})),
            ("inv_apply", call("solve", A=S("La"), b=wv), call("inv", A=S("Lb"), alg="Auto", akw={"max_iters": 2})),
            ("eig", call("eig", A=S("La"), k=2, which="LM"), call("eig", A=S("Lb"), k=2, which="LM", alg="Auto", akw={"max_iters": 3})),
            ("logdet", call("logdet", A=S("La")), call("logdet", A=S("Lb"), alg="Auto", akw={"tol": 1e-1, "max_iters": 3})),
            ("sqrt_apply", call("unary_apply", A=S("La"), f="sqrt", x=wv),
             call("unary_apply", A=S("Lb"), f="sqrt", x=wv, alg="Auto", akw={"max_iters": 3})),
            ("trace", call("trace_default", A=S("La")), call("trace_auto", A=S("Lb"), tol=0.5, max_iters=1))]:
        if ename in ("logdet", "sqrt_apply", "eig") and not heavy:  # 25-65 s each at n = 1001: thorough tier only
            continue
        steps = copy.deepcopy([mk("La", La), mk("Lb", Lb), dflt, withopts, dict(dflt, repeat_of=2)])
        for j, st in enumerate(steps):
            st["id"] = j
        out.append({"name": "auto_options_leak/%s" % ename,
                    "program": {"property": "C18", "run_seed": 0, "rng0": 4, "config": {"large": "auto_options_leak/" + ename},
                                "mode": "explicit", "steps": steps}})
    # churn: hundreds / thousands of array-less composites of a class are built and discarded (containers and instances go
    # back to the free lists), then an array-bearing instance of the SAME concrete class is built (its containers reuse the
    # recycled addresses) and observed: flatten leaves, round trip, leaf substitution (I-FLAT on every pool operator)
    sl_rows = lambda r, j: {"k": "getitem", "of": r, "s0": [j, j + 1], "s1": None}  # noqa: E731
    for cname, less, bearing in [
            ("sum_of_slices", {"k": "sum", "args": [_sl(ID), _sl(ID)]}, {"k": "add", "a": _sl(DN), "b": _sl2(DN)}),
            ("sum_of_3_row_slices", {"k": "sum", "args": [sl_rows(ID, 0), sl_rows(ID, 1), sl_rows(ID, 2)]},
             {"k": "sum", "args": [sl_rows(DN, 0), sl_rows(DN, 1), sl_rows(DN, 2)]}),
            ("product_of_slices", {"k": "product", "args": [_sl(GE2), {"k": "transpose_cls", "of": _sl(GE2)}]},
             {"k": "product", "args": [_sl(DN), {"k": "T", "of": _sl(DN)}]}),
            ("kron_of_slices", {"k": "kron", "args": [_sl(ID), _sl(ID)]}, {"k": "kron", "args": [_sl(DN), _sl(DN)]}),
            ("blockdiag_of_slices", {"k": "blockdiag", "args": [_sl(ID), _sl(ID)]}, {"k": "blockdiag", "args": [_sl(DN), _sl(DN)]})]:
        for count in (1, 40, 700, 3500):
            steps = [mk("Ch", {"k": "churn", "of": [less], "count": count, "then": bearing}), call("flatten", A=S("Ch")),
                     call("to_dense", A=S("Ch")), mk("Ch2", bearing), call("flatten", A=S("Ch2"))]
            steps = copy.deepcopy(steps)
            for j, st in enumerate(steps):
                st["id"] = j
            out.append({"name": "churn/%s/%d" % (cname, count),
                        "program": {"property": "C18", "run_seed": 0, "rng0": 4, "config": {"large": "churn/" + cname},
                                    "mode": "explicit", "steps": steps}})
    # one caller-owned Auto object carrying options that only some of the algorithms it turns into accept, handed to every
    # entry point, alone and in ordered pairs (small operand: direct paths; n = 1001: iterative paths)
    ES = [("solve", {"b": arr([N], "f8", 56)}), ("inv", {}), ("eig", {"k": 1, "which": "LM"}), ("eig", {"k": 2, "which": "LM"}),
          ("eigmax", {}), ("logdet", {}), ("unary", {"f": "sqrt"}), ("diag_auto", {"k": 0}), ("trace_auto", {}),
          ("svd", {"k": 1, "which": "LM"}), ("pinv", {})]
    m = 1001
    big = _psd({"k": "no_dispatch", "of": {"k": "diag", "n": m, "dtype": "f8", "seed": 81}})
    for akw in ({"max_iters": 5, "tol": 1e-10}, {"tol": 1e-3}, {"max_iters": 4}):
        for oname, orec, rows in (("small", _psd(SP), N), ("large", big, m)):
            if oname == "large" and "tol" not in akw:
                continue

            def one(e):
                a = dict(e[1])
                if "b" in a:
                    a["b"] = arr([rows], "f8", 56)
                return call(e[0], A=S("Ao"), alg={"algobj": "ga"}, **a)
            pairs = [(e1, e2) for e1 in ES for e2 in ES] if (oname == "small" and "tol" in akw and "max_iters" in akw) \
                else [(e, None) for e in ES]
            if oname == "large":
                pairs = [(e, None) for e in ES if e[0] in ("solve", "eig", "eigmax", "logdet", "trace_auto")]
            for e1, e2 in pairs:
                steps = [mk("Ao", orec), {"op": "mkalg", "name": "ga", "cls": "Auto", "kw": dict(akw)}, one(e1)]
                if e2 is not None:
                    steps += [one(e2), dict(one(e1), repeat_of=2)]
                steps = copy.deepcopy(steps)
                for j, st in enumerate(steps):
                    st["id"] = j
                nm = lambda e: e[0] + "".join("_%s" % v for v in e[1].values() if isinstance(v, (str, int)))  # noqa: E731
                out.append({"name": "auto_object/%s/%s/%s%s" % ("+".join(sorted(akw)), oname, nm(e1), "->" + nm(e2) if e2 else ""),
                            "program": {"property": "C18", "run_seed": 0, "rng0": 4,
                                        "config": {"large": "auto_object/" + oname}, "mode": "explicit", "steps": steps}})
    return out


# =========================================================================================
# Function x operator-kind matrix (C18): every linear-algebra / algebra entry point on every operator kind,
# called twice (second time on the same operands), results held, all invariants on.  Exhaustive over the matrix.
# =========================================================================================
def matrix_programs_c18():
    out = []

    def entries(slot, rows, cols, dt="f8"):
        sq = rows == cols
        x = arr([cols], dt, 51)
        X = arr([cols, 2], dt, 52)
        xr = arr([rows], dt, 53)
        R = {"k": "ref", "slot": slot}
        up = {"f4": "f8", "f8": "c16", "c16": "c16", "c8": "c16"}[dt]  # an operand of a wider dtype: the product promotes
        e = [("to_dense", call("to_dense", A=S(slot))), ("flatten", call("flatten", A=S(slot))),
             ("products_shapes", [call("matvec", A=S(slot), x=x), call("matvec", A=S(slot), x=X),
                                  call("matvec", A=S(slot), x=arr([cols, 3], dt, 68)),
                                  call("rmatvec", A=S(slot), x=xr), call("rmatvec", A=S(slot), x=arr([2, rows], dt, 69)),
                                  call("rmatvec", A=S(slot), x=arr([3, rows], dt, 70)),
                                  call("matvec", A=S(slot), x=arr([cols, rows], dt, 71)),
                                  call("rmatvec", A=S(slot), x=arr([cols, rows], dt, 72)),
                                  call("matvec", A=S(slot), x=arr([cols, rows], dt, 71))]),
             # operands that are views with negative / zero strides or read-only (cola must neither write to them nor choke)
             ("products_odd_layouts", [call("matvec", A=S(slot), x=arr([cols], dt, 73, layout="neg")),
                                       call("matvec", A=S(slot), x=arr([cols, 2], dt, 74, layout="neg")),
                                       call("rmatvec", A=S(slot), x=arr([2, rows], dt, 75, layout="neg")),
                                       call("matvec", A=S(slot), x=arr([cols, 3], dt, 76, layout="bcast")),
                                       call("rmatvec", A=S(slot), x=arr([3, rows], dt, 77, layout="bcast")),
                                       call("matvec", A=S(slot), x=arr([cols, 2], dt, 78, layout="ro")),
                                       call("rmatvec", A=S(slot), x=arr([rows], dt, 79, layout="ro"))]),
             ("mv_promote", [call("matvec", A=S(slot), x=arr([cols, 2], up, 65)), call("matvec", A=S(slot), x=x),
                             call("rmatvec", A=S(slot), x=arr([rows], up, 66)),
                             mk("m_ann", {"k": "ann", "name": "Stiefel", "of": R}), call("matvec", A=S("m_ann"), x=arr([cols], up, 67))]),
             ("T", mk("m_T", {"k": "T", "of": {"k": "ref", "slot": slot}})),
             ("H", mk("m_H", {"k": "H", "of": {"k": "ref", "slot": slot}})),
             ("to_f4", mk("m_to", {"k": "to", "of": {"k": "ref", "slot": slot}, "dtype": "f4"})),
             ("neg", mk("m_neg", {"k": "neg", "of": {"k": "ref", "slot": slot}})),
             ("getitem", mk("m_gi", {"k": "getitem", "of": {"k": "ref", "slot": slot}, "s0": [0, max(1, rows - 1)], "s1": None})),
             ("pinv_solve", call("pinv_solve", A=S(slot), b=xr)),
             ("svd", call("svd", A=S(slot), k=1, which="LM"))]
        if sq:
            e += [("ann_sa", mk("m_sa", {"k": "ann", "name": "SelfAdjoint", "of": {"k": "ref", "slot": slot}})),
                  ("diag_exact", call("diag_exact", A=S(slot), k=0)), ("diag_k1", call("diag_default", A=S(slot), k=1)),
                  ("trace", call("trace_default", A=S(slot))),
                  ("inv_apply", [call("inv", out="m_inv", A=S(slot)), call("matvec", A=S("m_inv"), x=X),
                                 call("rmatvec", A=S("m_inv"), x=xr)]),
                  ("solve", call("solve", A=S(slot), b=X)), ("rsolve", call("rsolve", A=S(slot), b=xr)),
                  ("solve_gmres", call("solve", A=S(slot), b=x, alg="GMRES", akw={"max_iters": 4}, x0=arr([cols], "f8", 54))),
                  ("logdet", call("logdet", A=S(slot))), ("slogdet_lu", call("slogdet", A=S(slot), alg="LU")),
                  ("exp_apply", call("unary_apply", A=S(slot), f="exp", x=x)),
                  ("sqrt_store", [call("unary", out="m_sqrt", A=S(slot), f="sqrt"), call("matvec", A=S("m_sqrt"), x=x)]),
                  ("pow2", mk("m_p2", {"k": "matmul", "a": {"k": "ref", "slot": slot}, "b": {"k": "ref", "slot": slot}})),
                  ("pow-1_apply", call("unary_apply", A=S(slot), f="pow-1", x=x)),
                  ("eig", call("eig", A=S(slot), k=1, which="LM")), ("eig_arnoldi", call("eig", A=S(slot), k=1, which="LM",
                                                                                          alg="Arnoldi", akw={"max_iters": 3})),
                  ("eigmax", call("eigmax_d", A=S(slot))), ("plu", call("plu", A=S(slot))),
                  ("arnoldi", call("arnoldi", A=S(slot), v0=arr([cols], "f8", 55), max_iters=3)),
                  ("smul_then_use", [mk("m_sm", {"k": "smul", "c": -2.0, "of": R}), call("matvec", A=S("m_sm"), x=X)]),
                  ("csmul", [mk("m_cs", {"k": "smul", "c": [0.5, 2.0], "of": R}), mk("m_cs2", {"k": "rsmul", "c": [0.0, 1.0], "of": R})]),
                  ("rsmul_div", [mk("m_rs", {"k": "div", "of": {"k": "rsmul", "c": 3.0, "of": R}, "c": 2.0}),
                                 call("to_dense", A=S("m_rs"))]),
                  ("prod3_use", [mk("m_p3", {"k": "matmul", "a": {"k": "matmul", "a": R, "b": R}, "b": R}),
                                 call("matvec", A=S("m_p3"), x=x), call("rmatvec", A=S("m_p3"), x=xr)]),
                  ("sum_of_sum", [mk("m_ss", {"k": "add", "a": {"k": "add", "a": R, "b": R}, "b": {"k": "smul", "c": 2.0, "of": R}}),
                                  call("matvec", A=S("m_ss"), x=x)]),
                  ("bd_mult", [mk("m_bd", {"k": "blockdiag", "args": [R, R], "mult": [2, 1]}), call("to_dense", A=S("m_bd")),
                               call("inv", out="m_bdi", A=S("m_bd"))]),
                  ("inv_of_product", [mk("m_pp", {"k": "matmul", "a": R, "b": {"k": "T", "of": R}}),
                                      call("inv", out="m_ppi", A=S("m_pp")), call("matvec", A=S("m_ppi"), x=x)]),
                  ("T_of_T", [mk("m_tt", {"k": "T", "of": {"k": "T", "of": R}}), call("matvec", A=S("m_tt"), x=x)]),
                  ("H_use", [mk("m_hh", {"k": "H", "of": R}), call("matvec", A=S("m_hh"), x=X), call("rmatvec", A=S("m_hh"), x=xr)]),
                  ("kron_self", mk("m_kr", {"k": "kron_fn", "a": {"k": "ref", "slot": slot}, "b": {"k": "ref", "slot": slot}})),
                  ("add_self", mk("m_add", {"k": "add", "a": {"k": "ref", "slot": slot}, "b": {"k": "ref", "slot": slot}}))]
        return e

    import copy
    for kname, (slot, rec, rows, cols) in sorted(KINDS.items()):
        for ename, body in entries(slot, rows, cols, KIND_DTYPE.get(kname, "f8")):
            body = body if isinstance(body, list) else [body]
            steps = [mk(slot, rec)] + [copy.deepcopy(b) for b in body]
            reps = [copy.deepcopy(b) for b in body if b["op"] == "call" and not b.get("out")]
            steps += reps
            for j, s in enumerate(steps):
                s["id"] = j
            out.append({"name": "%s/%s" % (ename, kname),
                        "program": {"property": "C18", "run_seed": 0, "rng0": 6, "config": {"matrix": [ename, kname]},
                                    "mode": "explicit", "steps": steps}})
    # temporaries: the operand of the first call is dropped (really freed), a different operand of the same kind and
    # shape is built (it may reuse the address), and the same call is made on it and on its twin
    def reseed(rec, delta):
        rr = copy.deepcopy(rec)

        def bump(o):
            if isinstance(o, dict):
                if "seed" in o:
                    o["seed"] = o["seed"] + delta
                for v in o.values():
                    bump(v)
            elif isinstance(o, list):
                for v in o:
                    bump(v)
        bump(rr)
        return rr

    def retarget(body, old, new):
        b = copy.deepcopy(body)

        def sub(o):
            if isinstance(o, dict):
                for k, v in list(o.items()):
                    if k == "slot" and v == old:
                        o[k] = new
                    else:
                        sub(v)
            elif isinstance(o, list):
                for v in o:
                    sub(v)
        sub(b)
        return b

    for kname in ("dense", "generic", "psd", "diag", "kron", "sum", "usercls_fresh", "dense_c16"):
        slot, rec, rows, cols = KINDS[kname]
        for ename, body in entries(slot, rows, cols, KIND_DTYPE.get(kname, "f8")):
            body = body if isinstance(body, list) else [body]
            if any(b["op"] != "call" or b.get("out") for b in body):
                continue
            steps = [mk(slot, rec)] + [copy.deepcopy(b) for b in body] + [{"op": "drop", "slot": slot}]
            # (a fresh class per build allocates a different amount each time: the address cannot be steered there)
            t2 = mk("T2", reseed(rec, 1000)) if kname == "usercls_fresh" else dict(mk("T2", reseed(rec, 1000)), reuse_id_of=slot)
            steps += [t2, mk("T2b", reseed(rec, 1000))]
            steps += [retarget(b, slot, "T2") for b in body] + [retarget(b, slot, "T2b") for b in body]
            for j, s in enumerate(steps):
                s["id"] = j
            out.append({"name": "temporary/%s/%s" % (ename, kname),
                        "program": {"property": "C18", "run_seed": 0, "rng0": 6, "config": {"matrix": ["temporary", ename, kname]},
                                    "mode": "explicit", "steps": steps}})
    # temporaries in a loop (see temporary_programs_c17): build, use, drop -- the next operand reuses the address -- plus the
    # single-operand programs; compared through the cross-history table (operands identified by value)
    def plain(kind, i):
        if kind == "dense":
            return {"k": "dense", "n": N, "dtype": "f8", "seed": 700 + i, "sym": "psd"}
        return {"k": "generic", "n": N, "dtype": "f8", "seed": 800 + i, "sym": "psd"}

    for kind in ("dense", "generic"):
        for ename, body in entries("Tq", N, N, "f8"):
            body = body if isinstance(body, list) else [body]
            if any(b["op"] != "call" or b.get("out") for b in body):
                continue
            loop = []
            for i in range(4):
                one = [mk("Tq%d" % i, plain(kind, i))] + [retarget(b, "Tq", "Tq%d" % i) for b in body]
                # in the loop the simulator decides the address: the one just freed (sim/addr.py)
                loop += ([dict(one[0], reuse_id_of="Tq%d" % (i - 1))] if i else one[:1]) + one[1:] + [{"op": "drop", "slot": "Tq%d" % i}]
                single = copy.deepcopy(one)
                for j, s in enumerate(single):
                    s["id"] = j
                out.append({"name": "temporary-single/%s/%s/%d" % (ename, kind, i),
                            "program": {"property": "C18", "run_seed": 0, "rng0": 6, "want_results": True,
                                        "config": {"matrix": ["tsingle", ename, kind, i]}, "mode": "explicit", "steps": single}})
            loop = copy.deepcopy(loop)
            for j, s in enumerate(loop):
                s["id"] = j
            out.append({"name": "temporary-loop/%s/%s" % (ename, kind),
                        "program": {"property": "C18", "run_seed": 0, "rng0": 6, "want_results": True,
                                    "config": {"matrix": ["tloop", ename, kind]}, "mode": "explicit", "steps": loop}})
    # PSD-only entry points on the PSD-declared version of every square kind
    for kname, (slot, rec, rows, cols) in sorted(KINDS.items()):
        if rows != cols or kname in ("psd", ):
            continue
        P_ = _psd(rec) if rec.get("k") != "ann" else rec
        _d = KIND_DTYPE.get(kname, "f8")
        for ename, body in [("cholesky", call("cholesky", A=S("mp"))),
                            ("solve_cg", call("solve", A=S("mp"), b=arr([cols], _d, 56), alg="CG", akw={"max_iters": 4},
                                              x0=arr([cols], _d, 57))),
                            ("solve_chol", call("solve", A=S("mp"), b=arr([cols, 2], _d, 58), alg="Cholesky")),
                            # degenerate parameters: zero iterations / tolerance met at once, caller-supplied guess
                            ("solve_cg_zero_iters", call("solve", A=S("mp"), b=arr([cols], _d, 56), alg="CG",
                                                         akw={"max_iters": 0}, x0=arr([cols], _d, 57))),
                            ("cg_tol_met_at_once", call("cg", A=S("mp"), b=arr([cols, 2], _d, 62), x0=arr([cols, 2], _d, 63),
                                                        tol=2.0, max_iters=5)),
                            ("cg_zero_rhs", call("cg", A=S("mp"), b=arr([cols], _d, 64, kind="zeros"),
                                                 x0=arr([cols], _d, 57), max_iters=3)),
                            ("gmres_one_iter", call("gmres", A=S("mp"), b=arr([cols], _d, 56), x0=arr([cols], _d, 57),
                                                    max_iters=1)),
                            ("lanczos_one_iter", call("lanczos", A=S("mp"), v0=arr([cols], _d, 59), max_iters=1)),
                            ("power_iteration_zero", call("power_iteration", A=S("mp"), max_iter=0)),
                            ("eig_all", call("eig", A=S("mp"), k=cols, which="SM")),
                            ("lanczos", call("lanczos", A=S("mp"), v0=arr([cols], _d, 59), max_iters=3)),
                            ("sqrt_lanczos", call("unary_apply", A=S("mp"), f="sqrt", alg="Lanczos", akw={"max_iters": 3},
                                                  x=arr([cols], _d, 60)))]:
            steps = [mk("mp", P_), copy.deepcopy(body), copy.deepcopy(body)]
            for j, s in enumerate(steps):
                s["id"] = j
            out.append({"name": "%s/psd_%s" % (ename, kname),
                        "program": {"property": "C18", "run_seed": 0, "rng0": 6, "config": {"matrix": [ename, "psd_" + kname]},
                                    "mode": "explicit", "steps": steps}})
    # the progress bar's terminal goes away (EPIPE) at the first / a later update / at close, inside every loop that can
    # show one, with caller-owned right-hand sides and initial guesses; then the same call again, undisturbed
    PB = _psd(DN) if DN.get("k") != "ann" else DN
    for ename, body in [("cg_pbar", call("cg", A=S("mp"), b=arr([N, 2], "f8", 62), x0=arr([N, 2], "f8", 63), max_iters=4, pbar=True)),
                        ("gmres_pbar", call("gmres", A=S("mp"), b=arr([N], "f8", 56), x0=arr([N], "f8", 57), max_iters=3,
                                            pbar=True)),
                        ("lanczos_pbar", call("lanczos", A=S("mp"), v0=arr([N], "f8", 59), max_iters=3, pbar=True)),
                        ("arnoldi_pbar", call("arnoldi", A=S("mp"), v0=arr([N], "f8", 59), max_iters=3, pbar=True)),
                        ("solve_cg_pbar", call("solve", A=S("mp"), b=arr([N], "f8", 56), alg="CG",
                                               akw={"max_iters": 4, "pbar": True}, x0=arr([N], "f8", 57)))]:
        for at in (0, 1, 3, 40):
            faulted = dict(copy.deepcopy(body), x={"pbar_fail": at})
            steps = [mk("mp", PB), faulted, copy.deepcopy(body)]
            for j, st in enumerate(steps):
                st["id"] = j
            out.append({"name": "%s/fail_at_%d" % (ename, at),
                        "program": {"property": "C18", "run_seed": 0, "rng0": 6, "config": {"matrix": [ename, "pbar_fail", at]},
                                    "mode": "explicit", "steps": steps}})
    return out
