/*
 * simalloc -- fault-injecting NumPy data allocator (harness side; not part of cola).
 *
 * Installs a PyDataMem_Handler that forwards to malloc/calloc/realloc/free, counts the
 * data allocations (malloc/calloc/growing realloc) performed while "armed" and not
 * "paused", and makes the k-th one (optionally: the k-th one of at least min_bytes)
 * return NULL, which NumPy turns into MemoryError at exactly that instant.
 *
 *   install()                 install the handler (idempotent)
 *   arm(k, min_bytes=0)       reset counter, start counting; k < 0: count only
 *   disarm() -> (count, fired_at, fired_bytes)
 *   pause() / resume()        nestable; while paused nothing is counted or failed
 *   count()                   current count
 */
#define PY_SSIZE_T_CLEAN
#include <Python.h>
#define NPY_NO_DEPRECATED_API NPY_1_7_API_VERSION
#include <numpy/arrayobject.h>
#include <stdlib.h>

static int g_armed = 0;
static int g_paused = 0;
static long long g_count = 0;
static long long g_target = -1;
static long long g_minbytes = 0;
static long long g_fired_at = -1;
static long long g_fired_bytes = -1;

static int should_fail(size_t size) {
    if (!g_armed || g_paused) return 0;
    if ((long long)size < g_minbytes) return 0;
    long long idx = g_count++;
    if (g_target >= 0 && idx == g_target && g_fired_at < 0) {
        g_fired_at = idx;
        g_fired_bytes = (long long)size;
        return 1;
    }
    return 0;
}

static void *sim_malloc(void *ctx, size_t size) {
    if (should_fail(size)) return NULL;
    return malloc(size ? size : 1);
}
static void *sim_calloc(void *ctx, size_t nelem, size_t elsize) {
    if (should_fail(nelem * elsize)) return NULL;
    if (nelem == 0 || elsize == 0) { nelem = 1; elsize = 1; }
    return calloc(nelem, elsize);
}
static void *sim_realloc(void *ctx, void *ptr, size_t new_size) {
    /* only a realloc of a fresh block counts as an allocation point; NumPy uses realloc
       mostly to shrink (np.resize, fromiter); failing a shrink is unrealistic */
    if (ptr == NULL && should_fail(new_size)) return NULL;
    return realloc(ptr, new_size ? new_size : 1);
}
static void sim_free(void *ctx, void *ptr, size_t size) { free(ptr); }

static PyDataMem_Handler sim_handler = {
    "simalloc", 1, {NULL, sim_malloc, sim_calloc, sim_realloc, sim_free}};

static int g_installed = 0;

static PyObject *py_install(PyObject *self, PyObject *args) {
    if (!g_installed) {
        PyObject *capsule = PyCapsule_New(&sim_handler, "mem_handler", NULL);
        if (capsule == NULL) return NULL;
        PyObject *old = PyDataMem_SetHandler(capsule);
        Py_DECREF(capsule);
        if (old == NULL) return NULL;
        Py_DECREF(old);
        g_installed = 1;
    }
    Py_RETURN_NONE;
}

static PyObject *py_arm(PyObject *self, PyObject *args) {
    long long k = -1, minb = 0;
    if (!PyArg_ParseTuple(args, "L|L", &k, &minb)) return NULL;
    g_count = 0; g_target = k; g_minbytes = minb; g_fired_at = -1; g_fired_bytes = -1;
    g_paused = 0; g_armed = 1;
    Py_RETURN_NONE;
}
static PyObject *py_disarm(PyObject *self, PyObject *args) {
    g_armed = 0; g_paused = 0;
    return Py_BuildValue("LLL", g_count, g_fired_at, g_fired_bytes);
}
static PyObject *py_pause(PyObject *self, PyObject *args) { g_paused++; Py_RETURN_NONE; }
static PyObject *py_resume(PyObject *self, PyObject *args) { if (g_paused > 0) g_paused--; Py_RETURN_NONE; }
static PyObject *py_count(PyObject *self, PyObject *args) { return PyLong_FromLongLong(g_count); }
static PyObject *py_fired(PyObject *self, PyObject *args) { return PyLong_FromLongLong(g_fired_at); }

static PyMethodDef methods[] = {
    {"install", py_install, METH_NOARGS, ""}, {"arm", py_arm, METH_VARARGS, ""},
    {"disarm", py_disarm, METH_NOARGS, ""},   {"pause", py_pause, METH_NOARGS, ""},
    {"resume", py_resume, METH_NOARGS, ""},   {"count", py_count, METH_NOARGS, ""},
    {"fired", py_fired, METH_NOARGS, ""},     {NULL, NULL, 0, NULL}};

static struct PyModuleDef moddef = {PyModuleDef_HEAD_INIT, "simalloc", NULL, -1, methods};

PyMODINIT_FUNC PyInit_simalloc(void) {
    import_array();
    return PyModule_Create(&moddef);
}
