"""Reference model pieces: RNG model, byte-level digests, attribute-graph walker."""
import hashlib

import numpy as np

_GLOBAL = np.random.mtrand._rand  # the real process-wide generator object (S1)
_BITGEN = _GLOBAL._bit_generator


# ------------------------------------------------------------------------------ RNG model
def raw_state(rs=_GLOBAL):
    name, key, pos, has_gauss, cached = rs.get_state(legacy=True)
    return (name, key.tobytes(), int(pos), int(has_gauss), float(cached).hex())


def state_digest(rs=_GLOBAL):
    st = raw_state(rs)
    h = hashlib.sha256()
    h.update(repr((st[0], st[2], st[3], st[4])).encode())
    h.update(st[1])
    return h.hexdigest()[:16]


class RngModel:
    """The specification 'cola does not exist as far as np.random is concerned'."""
    def __init__(self):
        self.rs = np.random.RandomState(0)

    def reseed(self, s):
        _GLOBAL.seed(s)
        self.rs.seed(s)

    def get_state(self):
        return _GLOBAL.get_state(legacy=True)

    def set_state(self, st):
        _GLOBAL.set_state(st)
        self.rs.set_state(st)

    def draw(self, kind, size):
        """Draw from the global generator *through the public module functions* and from the
        model; returns (user value, model value)."""
        g = getattr(np.random, kind)
        m = getattr(self.rs, kind)
        if kind in ("rand", "randn"):
            return g(size), m(size)
        if kind == "normal":
            return g(0.5, 2.0, size), m(0.5, 2.0, size)
        if kind == "randint":
            return g(0, 1000, size), m(0, 1000, size)
        if kind == "permutation":
            return g(size), m(size)
        if kind == "shuffle":
            a, b = np.arange(size), np.arange(size)
            g(a)
            m(b)
            return a, b
        if kind == "random":
            return g(size), m(size)
        raise ValueError(kind)

    def quick_sync(self):
        """Key and position of the two MT19937 states compared through their C structs (no copies): cheap enough to be
        evaluated after every source line.  The cached Gaussian and object identity are covered by in_sync() after the step."""
        import ctypes
        n = 624 * 4 + 4
        return (ctypes.string_at(_BITGEN.ctypes.state_address, n) == ctypes.string_at(self.rs._bit_generator.ctypes.state_address, n)
                and np.random.mtrand._rand is _GLOBAL)

    def in_sync(self):
        # same state bit for bit (key, position, cached Gaussian) AND still the same objects: a user may hold
        # references to the global RandomState / its bit generator
        return (raw_state(_GLOBAL) == raw_state(self.rs) and np.random.mtrand._rand is _GLOBAL
                and _GLOBAL._bit_generator is _BITGEN)


# ------------------------------------------------------------------------------ digests
def arr_digest(a, with_layout=False):
    a = np.asarray(a)
    h = hashlib.sha256()
    h.update(a.dtype.str.encode())
    h.update(repr(a.shape).encode())
    if with_layout:
        h.update(repr(a.strides).encode())
    try:
        h.update(np.ascontiguousarray(a).tobytes())
    except Exception as e:  # object arrays etc.
        h.update(repr(type(e)).encode())
    return h.hexdigest()[:16]


BASE_FIELDS = ("xnp", "shape", "dtype", "device", "annotations")
VOLATILE_INFO_KEYS = ("iteration_time", )


def is_op(x):
    from cola.ops import LinearOperator
    return isinstance(x, LinearOperator)


def ann_names(op):
    try:
        return sorted(getattr(a, "__name__", str(a)) for a in op.annotations)
    except Exception as e:
        return ["<raises %s>" % type(e).__name__]


def dense_digest(op):
    """Digest of to_dense(); a raising to_dense() is a stable fingerprint 'raises X'."""
    try:
        if int(op.shape[0]) * int(op.shape[1]) > 4_000_000:
            # too large to materialise: digest of the parameter arrays instead
            return "large:" + jhash([(p, arr_digest(a)) for p, a in walk_arrays(op)])
        d = op.to_dense()
        return arr_digest(d)
    except Exception as e:  # noqa
        if type(e).__name__ in ("SimFault", "MemoryError"):
            raise
        return "raises:" + type(e).__name__


def walk_ops(obj, out=None, path="", seen=None, depth=0):
    """Operators nested inside an operator (parts of composites, wrapped operands), by attribute path."""
    if out is None:
        out = []
    if depth > 12:
        return out
    if is_op(obj):
        if path:
            out.append((path, obj))
        for k, v in sorted(vars(obj).items()):
            if k in BASE_FIELDS:
                continue
            walk_ops(v, out, f"{path}.{k}", seen, depth + 1)
    elif isinstance(obj, (tuple, list)):
        for i, v in enumerate(obj):
            walk_ops(v, out, f"{path}[{i}]", seen, depth + 1)
    return out


def op_fingerprint(op, dense=True):
    fp = {
        "cls": type(op).__name__,
        "shape": [int(s) for s in op.shape],
        "dtype": str(np.dtype(op.dtype)) if _is_np_dtype(op.dtype) else str(op.dtype),
        "ann": ann_names(op),
        # the parts of a composite are operators too (the caller may hold them): kind, shape, dtype and annotations of each
        "parts": [[p, type(o).__name__, [int(x) for x in o.shape], str(o.dtype), ann_names(o)] for p, o in walk_ops(op)][:64],
    }
    if dense:
        fp["dense"] = dense_digest(op)
    return fp


def _is_np_dtype(dt):
    try:
        np.dtype(dt)
        return True
    except Exception:
        return False


def walk_arrays(obj, out=None, path="", seen=None):
    """Harness walker: arrays reachable through attributes holding arrays, operators, or
    tuples/lists/dicts of those.  Independent of cola's `_dynamic` registry.
    Returns list of (path, ndarray) in deterministic (sorted attribute, positional) order."""
    if out is None:
        out = []
    if isinstance(obj, np.ndarray):
        out.append((path, obj))
    elif is_op(obj):
        for k, v in sorted(vars(obj).items()):
            if k in BASE_FIELDS:
                continue
            walk_arrays(v, out, f"{path}.{k}")
    elif isinstance(obj, (tuple, list)):
        for i, v in enumerate(obj):
            walk_arrays(v, out, f"{path}[{i}]")
    elif isinstance(obj, dict):
        for k in sorted(obj, key=repr):
            walk_arrays(obj[k], out, f"{path}[{k!r}]")
    return out


def params_digest(op):
    return [(p, arr_digest(a, with_layout=True)) for p, a in walk_arrays(op)]


def result_digest(x, _depth=0):
    """Canonical JSON-able digest of any value a cola call can return."""
    if _depth > 8:
        return "<deep>"
    if x is None or isinstance(x, (bool, str)):
        return x
    if isinstance(x, np.ndarray):
        return "arr:" + arr_digest(x)
    if isinstance(x, (int, float, complex, np.generic)):
        return "num:" + arr_digest(np.asarray(x))
    if is_op(x):
        return {"op": op_fingerprint(x)}
    if isinstance(x, (tuple, list)):
        return [result_digest(v, _depth + 1) for v in x]
    if isinstance(x, dict):
        return {str(k): result_digest(v, _depth + 1) for k, v in sorted(x.items(), key=lambda kv: str(kv[0]))
                if k not in VOLATILE_INFO_KEYS}
    if hasattr(x, "__dict__") and not callable(x):
        return {"obj": type(x).__name__, "d": result_digest(dict(vars(x)), _depth + 1)}
    return "<%s>" % type(x).__name__


def jhash(obj):
    import json
    return hashlib.sha256(json.dumps(obj, sort_keys=True, default=str).encode()).hexdigest()[:16]
