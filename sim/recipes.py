"""Build caller-owned arrays and cola operators from JSON recipes through the PUBLIC API.

Arrays come from private np.random.Generator(PCG64(seed)) objects (never the global
generator, which is the system under test) and are registered in the run's ledger.
"""
import json

import numpy as np

from .world import ALLOC

DT = {"f4": np.float32, "f8": np.float64, "c8": np.complex64, "c16": np.complex128}


def canon(obj):
    return json.dumps(obj, sort_keys=True, separators=(",", ":"))


def _gen(seed):
    return np.random.Generator(np.random.PCG64(int(seed) & 0xFFFFFFFFFFFF))


def raw_array(spec):
    """spec: {shape, dtype, seed, kind?, layout?} -> (array handed to cola, base buffer)"""
    shape = tuple(spec["shape"])
    dt = DT[spec.get("dtype", "f8")]
    g = _gen(spec.get("seed", 0))
    kind = spec.get("kind", "normal")
    if kind == "zeros":
        a = np.zeros(shape, dtype=dt)
    elif kind == "ones":
        a = np.ones(shape, dtype=dt)
    elif kind == "unit":
        a = np.zeros(shape, dtype=dt)
        a.reshape(-1)[0] = 1
    elif kind == "pos":
        a = (0.5 + g.random(shape)).astype(dt)
    elif kind == "mask":  # a 0/positive pattern: exact zeros (a singular diagonal, a mask, a projector's spectrum)
        a = (0.5 + g.random(shape)).astype(dt)
        a.reshape(-1)[1::2] = 0
    elif kind == "tiny":  # round-off-level entries of either sign next to O(1) ones (eigenvalues of a rank-deficient matrix)
        a = (0.5 + g.random(shape)).astype(dt)
        a.reshape(-1)[0::3] = (np.asarray([1e-17, -2e-16, 3e-18] * (a.size // 9 + 1))[:len(a.reshape(-1)[0::3])]).astype(dt)
    elif kind == "perm":
        a = g.permutation(shape[0]).astype(np.int64)
    elif kind == "perm_neg":  # a permutation whose larger entries are written NumPy-style from the end (-1 is the last row)
        a = g.permutation(shape[0]).astype(np.int64)
        a[a >= (shape[0] + 1) // 2] -= shape[0]
    elif kind == "int":
        a = g.integers(-3, 4, size=shape).astype(dt)
    else:
        a = g.standard_normal(shape)
        if np.issubdtype(dt, np.complexfloating):
            a = a + 1j * g.standard_normal(shape)
        a = a.astype(dt)
    layout = spec.get("layout", "c")
    base = a
    if layout == "f" and a.ndim == 2:
        a = np.asfortranarray(a)
        base = a
    elif layout == "strided" and a.ndim >= 1:
        big = np.zeros(tuple(2 * s for s in a.shape), dtype=a.dtype)
        sl = tuple(slice(None, None, 2) for _ in a.shape)
        big[sl] = a
        base = big
        a = big[sl]
    elif layout == "neg" and a.ndim >= 1:  # negative stride along the first axis (a reversed view of the caller's buffer)
        base = np.ascontiguousarray(a[::-1])
        a = base[::-1]
    elif layout == "bcast" and a.ndim == 2:  # one column broadcast over all columns (read-only view, stride 0)
        base = np.ascontiguousarray(a[:, :1])
        a = np.broadcast_to(base, a.shape)
    elif layout == "ro":  # a read-only array (e.g. memory-mapped data, a frozen constant)
        a.flags.writeable = False
    return a, base


def dense_matrix(spec):
    """spec for a square/rect matrix payload with structure: gen | sym | psd | tril | triu | herm"""
    n, m = spec["n"], spec.get("m", spec["n"])
    dt = DT[spec.get("dtype", "f8")]
    g = _gen(spec.get("seed", 0))
    cplx = np.issubdtype(dt, np.complexfloating)

    def rnd(*shape):
        a = g.standard_normal(shape)
        if cplx:
            a = a + 1j * g.standard_normal(shape)
        return a

    sym = spec.get("sym", "gen")
    if sym == "gen" or n != m:
        M = rnd(n, m)
        if n == m:
            M = M + 2.0 * np.eye(n)  # keep generically invertible
    elif sym == "sym":
        B = rnd(n, n)
        M = (B + B.conj().T) / 2
    elif sym == "psd":
        B = rnd(n, n)
        M = B @ B.conj().T / n + np.eye(n)
    elif sym == "psd_singular":  # Gram matrix of rank n-1: positive semi-definite only up to round-off
        B = rnd(n, max(n - 1, 1))
        M = B @ B.conj().T / n
        if n == 1:
            M = M * 0
    elif sym == "psd_badscale":  # positive definite, diagonal entries four orders of magnitude apart, fully coupled
        v = np.array([1.0] * ((n + 1) // 2) + [1e-2] * (n // 2))
        M = np.outer(v, v) + 1e-4 * np.eye(n)
    elif sym == "psd_rank1":
        B = rnd(n, 1)
        M = B @ B.conj().T
    elif sym == "zero":
        M = np.zeros((n, n))
    elif sym == "diagm":  # a diagonal matrix (given to cola as an unstructured operator)
        M = np.diag(rnd(n) + 3.0)
    elif sym == "tril":
        M = np.tril(rnd(n, n)) + 2 * np.eye(n)
    elif sym == "triu":
        M = np.triu(rnd(n, n)) + 2 * np.eye(n)
    else:
        raise ValueError(sym)
    return np.ascontiguousarray(M.astype(dt))


class Builder:
    """Evaluates recipes against a run context (ledger + pool)."""
    def __init__(self, ctx):
        self.ctx = ctx

    # ---- arrays -------------------------------------------------------------------------
    def array(self, spec):
        key = canon(spec)
        led = self.ctx.ledger
        if key not in led.items:
            ALLOC.pause()  # harness allocations are never counted or failed
            try:
                if "n" in spec and "shape" not in spec:
                    a = dense_matrix(spec)
                    base = a
                    lay = spec.get("layout", "c")
                    if lay == "f":
                        a = base = np.asfortranarray(a)
                    elif lay == "strided":  # a non-contiguous view into a bigger caller-owned buffer
                        big = np.zeros((2 * a.shape[0], 2 * a.shape[1]), dtype=a.dtype)
                        big[::2, ::2] = a
                        base, a = big, big[::2, ::2]
                    elif lay == "tview":  # the transpose view of a C-contiguous buffer
                        base = np.ascontiguousarray(a.T)
                        a = base.T
                else:
                    a, base = raw_array(spec)
                led.register(key, a, base)
            finally:
                ALLOC.resume()
        return led.get(key)

    # ---- operators ----------------------------------------------------------------------
    def op(self, r):
        import cola
        from cola import ops
        k = r["k"]
        B = self.op
        if k == "ref":
            return self.ctx.pool[r["slot"]].op
        if k == "dense":
            return ops.Dense(self.array({**{kk: v for kk, v in r.items() if kk != "k"}}))
        if k == "lazify":
            return cola.lazify(self.array({**{kk: v for kk, v in r.items() if kk != "k"}}))
        if k == "tri":
            lower = r.get("lower", True)
            A = self.array({"n": r["n"], "dtype": r.get("dtype", "f8"), "seed": r.get("seed", 0),
                            "sym": "tril" if lower else "triu"})
            return ops.Triangular(A, lower=lower)
        if k == "diag":
            d = self.array({"shape": [r["n"]], "dtype": r.get("dtype", "f8"), "seed": r.get("seed", 0),
                            "kind": r.get("vals") or ("pos" if r.get("pos", True) else "normal"), **_lay(r)})
            return ops.Diagonal(d)
        if k == "identity":
            return ops.Identity((r["n"], r.get("m", r["n"])), DT[r.get("dtype", "f8")])
        if k == "scalar":
            return ops.ScalarMul(r["c"], (r["n"], r["n"]), dtype=DT[r.get("dtype", "f8")])
        if k == "tridiag":
            n, dt, s = r["n"], r.get("dtype", "f8"), r.get("seed", 0)
            odt = r.get("offdt", dt)  # mixed precision: the operator's dtype is the main diagonal's
            a = self.array({"shape": [max(n - 1, 0)], "dtype": odt, "seed": s, **_lay(r)})
            b = self.array({"shape": [n], "dtype": dt, "seed": s + 1, "kind": "pos", **_lay(r)})
            if r.get("symm", True):
                return ops.Tridiagonal(a, b, a)
            c = self.array({"shape": [max(n - 1, 0)], "dtype": odt, "seed": s + 2})
            return ops.Tridiagonal(a, b, c)
        if k == "perm":
            p = self.array({"shape": [r["n"]], "seed": r.get("seed", 0), "kind": "perm_neg" if r.get("neg") else "perm"})
            return ops.Permutation(p, DT[r.get("dtype", "f8")])
        if k == "householder":
            v = self.array({"shape": [r["n"], 1], "dtype": r.get("dtype", "f8"), "seed": r.get("seed", 0)})
            return ops.Householder(v)
        if k == "fft":
            return ops.FFT(r["n"], DT[r.get("dtype", "c16")])
        if k == "kernel":
            n, dt, s = r["n"], r.get("dtype", "f8"), r.get("seed", 0)
            x1 = self.array({"shape": [n, 2], "dtype": dt, "seed": s})
            x2 = x1 if r.get("same", True) else self.array({"shape": [n, 2], "dtype": r.get("x2dt", dt), "seed": s + 1})
            return ops.Kernel(x1, x2, _rbf, r.get("bs1", max(1, n // 2)), r.get("bs2", max(1, n // 2)))
        if k == "sparse":
            n, dt, s = r["n"], r.get("dtype", "f8"), r.get("seed", 0)
            nnz = max(1, min(2 * n, n * n))
            ALLOC.pause()
            try:
                g = _gen(s)
                cells = np.sort(g.permutation(n * n)[:nnz])  # distinct cells, row-major order
                ri0 = (cells // n).astype(np.int64)
                ci0 = (cells % n).astype(np.int64)
            finally:
                ALLOC.resume()
            data = self.array({"shape": [nnz], "dtype": dt, "seed": s})
            ri = self.ctx.ledger.get_or_make("sparse_r:%d:%d" % (n, s), lambda: ri0)
            ci = self.ctx.ledger.get_or_make("sparse_c:%d:%d" % (n, s), lambda: ci0)
            return ops.Sparse(data, ri, ci, shape=(n, n))
        if k == "generic":
            # array-less operator through the public generic constructor
            M = self.array({"n": r["n"], "m": r.get("m", r["n"]), "dtype": r.get("dtype", "f8"),
                            "seed": r.get("seed", 0), "sym": r.get("sym", "gen")})
            return ops.LinearOperator(M.dtype, M.shape, matmat=_Matmat(M))
        if k == "churn":
            # a long-running session: `count` operators are built from the given recipes and thrown away at once (really
            # freed: their containers go back to CPython's free lists, their addresses are handed out again)
            import gc
            junk = []
            for i in range(r.get("count", 600)):
                junk.append(B(r["of"][i % len(r["of"])]))  # all alive at the same time (distinct addresses) ...
            del junk[:]  # ... and all freed at once
            gc.collect()
            return B(r["then"]) if "then" in r else B(r["of"][0])
        if k == "flood":
            # many parametric classes of one family in one step: `count` composites whose first part is an instance of a
            # FRESH user class each (Product[Scaled, Dense], ... -- every one a new concrete class of the family)
            fam, count = r.get("family", "product"), r.get("count", 1200)
            d = self.array({"shape": [2], "dtype": "f8", "seed": 5, "kind": "pos"})
            other = B({"k": "dense", "n": 2, "dtype": "f8", "seed": 6, "sym": "gen"})
            last = None
            for _ in range(count):
                U = _make_user_class()(d, 2.0)
                if fam == "product":
                    last = ops.Product(U, other)
                elif fam == "sum":
                    last = ops.Sum(U, other)
                elif fam == "kron":
                    last = ops.Kronecker(U, other)
                elif fam == "transpose":
                    last = ops.Transpose(U)
                else:
                    last = ops.BlockDiag(U, other)
            return last
        if k == "userview":
            # a user operator whose product is a VIEW of its argument (legal: exchange matrix J = X[::-1], or the identity
            # written as X[:]) -- cola must not write into what an operator's product returned without owning it
            n, dt = r["n"], DT[r.get("dtype", "f8")]
            return ops.LinearOperator(dt, (n, n), matmat=_flip if r.get("mode", "flip") == "flip" else _alias)
        if k == "usercls":
            # a user-defined LinearOperator subclass; fresh=True re-runs the class definition (factory function called
            # again, notebook cell re-executed): a NEW class object with the same qualified name
            cache = self.ctx.__dict__.setdefault("_user_classes", {})
            if r.get("fresh", False) or "Scaled" not in cache:
                cache["Scaled"] = _make_user_class()
            d = self.array({"shape": [r["n"]], "dtype": r.get("dtype", "f8"), "seed": r.get("seed", 0), "kind": "pos"})
            return cache["Scaled"](d, r.get("c", 2.0))
        if k == "probe":
            return self.ctx.make_probe(B(r["inner"]), r.get("pid", 0))
        if k == "sum":
            return ops.Sum(*[B(a) for a in r["args"]])
        if k == "product":
            return ops.Product(*[B(a) for a in r["args"]])
        if k == "kron":
            return ops.Kronecker(*[B(a) for a in r["args"]])
        if k == "kronsum":
            return ops.KronSum(*[B(a) for a in r["args"]])
        if k == "blockdiag":
            return ops.BlockDiag(*[B(a) for a in r["args"]], multiplicities=r.get("mult"))
        if k == "concat":
            return ops.Concatenated(*[B(a) for a in r["args"]], axis=r.get("axis", 0))
        if k == "transpose_cls":
            return ops.Transpose(B(r["of"]))
        if k == "adjoint_cls":
            return ops.Adjoint(B(r["of"]))
        if k == "sliced_cls":
            return ops.Sliced(B(r["of"]), (_sl(r["s0"]), _sl(r["s1"])))
        # ---- algebra through the dispatching operators -----------------------------------
        if k == "T":
            return B(r["of"]).T
        if k == "H":
            return B(r["of"]).H
        if k == "add":
            return B(r["a"]) + B(r["b"])
        if k == "sub":
            return B(r["a"]) - B(r["b"])
        if k == "matmul":
            return B(r["a"]) @ B(r["b"])
        if k == "neg":
            return -B(r["of"])
        if k == "smul":
            return _scalar(r["c"]) * B(r["of"])
        if k == "rsmul":
            return B(r["of"]) * _scalar(r["c"])
        if k == "div":
            return B(r["of"]) / _scalar(r["c"])
        if k == "kron_fn":
            return cola.kron(B(r["a"]), B(r["b"]))
        if k == "kronsum_fn":
            return cola.kronsum(B(r["a"]), B(r["b"]))
        if k == "block_diag_fn":
            return cola.block_diag(*[B(a) for a in r["args"]])
        if k == "getitem":
            return B(r["of"])[_sl(r["s0"]), _sl(r["s1"])]
        if k == "getrow":
            return B(r["of"])[_sl(r["s0"])]
        if k == "ann":
            return getattr(cola, r["name"])(B(r["of"]))
        if k == "to":
            dt = r.get("dtype")
            return B(r["of"]).to(None, DT[dt]) if dt else B(r["of"]).to(None)
        if k == "no_dispatch":
            return cola.no_dispatch(B(r["of"]))
        if k == "I_like":
            return ops.I_like(B(r["of"]))
        raise ValueError("unknown recipe kind %r" % k)


def _make_user_class():
    from cola.ops import LinearOperator

    class Scaled(LinearOperator):
        """what the documentation calls MyLinearOperator: one array parameter, one Python scalar"""
        def __init__(self, d, c=2.0):
            self.d = d
            self.c = c
            super().__init__(d.dtype, (len(d), len(d)))

        def _matmat(self, X):
            return self.c * self.d[:, None] * X

    return Scaled


def _lay(r):
    return {"layout": r["layout"]} if r.get("layout") in ("strided", ) else {}


def _scalar(c):
    if isinstance(c, list):
        return complex(c[0], c[1])
    return c


def _sl(s):
    if s is None:
        return slice(None)
    return slice(*s)


def _rbf(x1, x2):
    from . import world
    world.user_fn_yield()
    d = ((x1[:, None, :] - x2[None, :, :])**2).sum(-1)
    return np.exp(-0.5 * np.abs(d))


def _flip(X):
    return X[::-1]


def _alias(X):
    return X[:]


class _Matmat:
    """A user-supplied matmat closure for the generic LinearOperator (no arrays on the operator)."""
    def __init__(self, M):
        self._M = M

    def __call__(self, X):
        return self._M @ X
