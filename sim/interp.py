"""Executor of simulated histories + invariants (runs inside a forked pristine child)."""
import hashlib
import json
import os
import random
import re
import signal
import sys
import traceback
from collections import Counter

import numpy as np

from . import world
from .world import ALLOC, CLOCK, FakeBar
from . import refmodel as rm
from .refmodel import RngModel, arr_digest, jhash, result_digest
from .recipes import Builder, canon

SIM_DIR = os.path.dirname(os.path.abspath(__file__))
MAX_PRODUCTS = 40_000
MAX_STEPS = 200
NONFINITE_ALARM_S = 20

FAULT_KINDS = ("raise", "alloc_fail", "nonfinite", "pbar_fail", "clock")


class SimFault(Exception):
    """Raised by the user party's operator callback (injected crash of the call in flight)."""


class SimInterrupt(KeyboardInterrupt):
    """An asynchronous interrupt (Ctrl-C, a cancelled task) delivered at an arbitrary source line of cola: NOT an Exception, so
    `except Exception` clean-up code does not see it -- only try/finally does."""


class HarnessBound(BaseException):
    pass


class Violation(Exception):
    def __init__(self, prop, inv, detail):
        super().__init__(f"{prop}/{inv}")
        self.prop, self.inv, self.detail = prop, inv, detail


def sub_rng(*parts):
    h = hashlib.sha256(":".join(str(p) for p in parts).encode()).digest()
    return random.Random(int.from_bytes(h[:8], "big"))


# ----------------------------------------------------------------------------------- ledger
class Ledger:
    """Every caller-owned array handed to cola: bytes/dtype/shape/strides recorded at creation."""
    def __init__(self, readonly=False):
        self.items = {}  # key -> (array, base, digest)
        self.readonly = readonly

    def register(self, key, a, base=None):
        base = a if base is None else base
        if self.readonly:  # diagnostic replay only: turns a silent mutation into a ValueError naming the line
            base.flags.writeable = False
            a.flags.writeable = False
        self.items[key] = (a, base, self._dig(a, base))

    def get_or_make(self, key, mk):
        if key not in self.items:
            self.register(key, mk())
        return self.items[key][0]

    def get(self, key):
        return self.items[key][0]

    @staticmethod
    def _dig(a, base):
        return (arr_digest(a, with_layout=True), arr_digest(base, with_layout=True), bool(a.flags.writeable))

    def check(self):
        bad = []
        for key, (a, base, dig) in self.items.items():
            if self._dig(a, base) != dig:
                bad.append(key)
        return bad


class Entry:
    __slots__ = ("op", "fp", "params", "structural", "recipe", "born", "flat_ok")

    def __init__(self, op, fp, params, structural, recipe, born):
        self.op, self.fp, self.params, self.structural = op, fp, params, structural
        self.recipe, self.born = recipe, born
        self.flat_ok = None


class Cur:
    """State of the step currently in flight."""
    def __init__(self, step, explicit, plan, resolved):
        self.step = step
        self.sid = step["id"]
        self.ncb = 0
        self.ncb_top = 0
        self.nprod_top = 0  # operator products of the outer call only (not user-function yields, not nested calls)
        self.product_cap = None
        self.product_cap_mi = None
        self.depth = 0
        self.explicit = explicit  # True: use step['x'] only
        self.cb = dict((step.get("x") or {}).get("cb") or {})
        self.plan = plan or {}
        self.resolved = resolved  # {'raise_at': int|None, 'nonfinite_at': int|None}
        self.used = {}  # materialised non-noop actions
        self.fault_fired = set()
        self.snap = None
        self.clock_list = list((step.get("x") or {}).get("clock") or (plan or {}).get("clock") or [])
        self.clock_i = 0
        self.pbar_at = None
        self.pbar_n = 0
        self.user_actions = 0


class Ctx:
    def __init__(self, program):
        self.program = program
        self.prop = program["property"]
        self.cfg = program.get("config", {})
        self.seed = program.get("run_seed", 0)
        world.enter_simulation(self.seed)  # OS entropy, Python's `random`, the `time` module: functions of the run seed
        self.mode = program.get("mode", "seed")  # seed | explicit
        self.model = RngModel()
        self.ledger = Ledger(readonly=bool(program.get("readonly")))
        self.pool = {}
        self.builder = Builder(self)
        self.results = {}  # call_key -> {"dig":..., "state":..., "src":...}
        self.events = []
        self.stats = Counter()
        self.cur = None
        self.harness_depth = 0
        self.total_products = 0
        self.step_out = {}  # sid -> materialised step
        self.saved_states = {}
        self.culprits = []
        self.dropped_ids = {}
        self.placeholders = {}
        self.owned_pool = None
        self.reuse_wanted = {s.get("reuse_id_of") for s in program.get("steps", []) if s.get("reuse_id_of")}
        self.import_epoch = []
        self.results_by_epoch = {}
        self.held = []  # results the caller still holds: (label, array, digest) -- caller-owned once returned
        self.class_first = {}
        self.last_registry_sig = None
        self.flat_checked = set()
        self._flat_skip = False
        self._flat_checked_now = set()
        self._pending_res = None
        self._held_res = None
        self.algs = {}  # name -> (algorithm object, digest of its __dict__)
        self.alg_specs = {}
        self.auto_defaults = [(o, self.alg_digest(o)) for o in world.AUTO_DEFAULTS]
        self.fired = Counter()
        self.samples = []
        self.sched_sig = []  # abstract schedule signature
        world.USER_FN_HOOK = self.on_user_fn

    @staticmethod
    def alg_digest(obj):
        def d(v):
            if isinstance(v, np.ndarray):
                return "arr:" + arr_digest(v, with_layout=True)
            if rm.is_op(v):
                return "op:%s:%s" % (type(v).__name__, tuple(v.shape))
            if isinstance(v, dict):
                return {str(k): d(x) for k, x in sorted(v.items(), key=lambda kv: str(kv[0]))}
            if isinstance(v, (list, tuple)):
                return [d(x) for x in v]
            return repr(v)
        return jhash({"cls": type(obj).__name__, "d": d(dict(vars(obj)))})

    # ------------------------------------------------------------------ probe / scheduler
    def make_probe(self, inner, pid):
        from cola.ops import LinearOperator
        ctx = self

        def fn(X):
            return ctx.on_product(inner, X, pid)

        fn.__name__ = "probe%d" % pid
        return LinearOperator(inner.dtype, inner.shape, matmat=fn)

    def action_for(self, cur, idx):
        if cur.explicit:
            return cur.cb.get(str(idx), ["noop"])
        r = cur.resolved
        if r.get("raise_at") == idx:
            return ["raise"]
        if r.get("nonfinite_at") == idx:
            return ["nonfinite", "nan" if idx % 2 == 0 else "inf"]
        rates = cur.plan.get("rates") or {}
        if not rates:
            return ["noop"]
        g = sub_rng(self.seed, "cb", cur.sid, idx)
        u = g.random()
        acc = 0.0
        for name in ("draw", "reseed", "setstate", "reenter", "clock"):
            acc += rates.get(name, 0.0)
            if u < acc:
                if name == "draw":
                    return ["draw", g.choice(["rand", "randn", "normal", "randint", "permutation", "shuffle"]),
                            g.randint(1, 5)]
                if name == "reseed":
                    return ["reseed", g.randrange(2**32)]
                if name == "setstate":
                    return ["setstate"]
                if name == "reenter":
                    menu = cur.step.get("menu") or []
                    if not menu:
                        return ["noop"]
                    return ["reenter", g.randrange(len(menu))]
                if name == "clock":
                    return ["clock", g.choice([-3600.0, -1.0, 0.0, 1e-3, 86400.0])]
        return ["noop"]

    def yield_point(self, cur):
        """Control passes to the user party (scheduler draws its action); returns the action."""
        ALLOC.pause()
        try:
            self.total_products += 1
            if self.total_products > MAX_PRODUCTS:
                raise HarnessBound("products")
            idx = cur.ncb
            cur.ncb += 1
            if cur.depth == 0:
                cur.ncb_top += 1
            act = self.action_for(cur, idx) if cur.depth == 0 else ["noop"]
            if act[0] != "noop":
                cur.used[str(idx)] = act
                self.events.append(("cb", cur.sid, idx, act[0]))
                self.user_action(cur, act)
        finally:
            ALLOC.resume()
        if act[0] == "raise":
            cur.fault_fired.add("raise")
            self.fired["raise"] += 1
            raise SimFault("injected at callback %d" % idx)
        return act

    def on_product(self, inner, X, pid):
        cur = self.cur
        if self.harness_depth > 0 or cur is None:
            return inner @ X
        if cur.depth == 0:
            cur.nprod_top += 1
            if cur.product_cap is not None and cur.nprod_top > cur.product_cap:
                # reported at the offending product, so that an estimator that never stops cannot hang the run
                raise Violation("C17", "I-STEPS", {
                    "what": "Hutchinson estimator performed more operator products than max_iters",
                    "products": cur.nprod_top, "max_iters": cur.product_cap_mi})
        act = self.yield_point(cur)
        Y = inner @ X
        if act[0] == "nonfinite":
            if "nonfinite" not in cur.fault_fired:
                # LAPACK drivers (gelsd, ...) can spin forever on NaN input: bound the step by SIGALRM
                # (default disposition: the process dies and the parent records env_hang, not a verdict)
                world.crumb({"nonfinite": cur.sid})
                signal.alarm(NONFINITE_ALARM_S)
            cur.fault_fired.add("nonfinite")
            self.fired["nonfinite"] += 1
            Y = np.array(Y, copy=True)
            if Y.size:
                Y.reshape(-1)[0] = np.nan if act[1] == "nan" else np.inf
        return Y

    def on_user_fn(self):
        """Other user code that cola runs while a call is in flight (unary f, SLQ fun, Kernel fn)."""
        cur = self.cur
        if self.harness_depth > 0 or cur is None:
            return
        self.stats["user_fn_callbacks"] += 1
        self.yield_point(cur)

    def user_action(self, cur, act):
        """User-party behaviour at a yield point (top level or inside a callback)."""
        k = act[0]
        if k == "draw":
            cur.user_actions += 1
            u, m = self.model.draw(act[1], act[2])
            self.stats["user_draws"] += 1
            if cur.depth == 0 and cur.step.get("op") == "call":
                self.stats["draw_inside_callback"] += 1
            ud, md = arr_digest(u), arr_digest(m)
            self.events.append(("draw", act[1], act[2], ud))
            if ud != md and self.prop == "C17":
                raise Violation("C17", "I-DRAW", {
                    "what": "value drawn by the user from np.random differs from the reference stream",
                    "kind": act[1], "inside_callback": cur.step.get("op") == "call",
                    "rng_touched_by": world.RNG_TOUCH[-6:]})
        elif k == "reseed":
            cur.user_actions += 1
            self.model.reseed(act[1])
            self.stats["reseed_inside_callback" if cur.step.get("op") == "call" else "user_reseeds"] += 1
        elif k == "setstate":
            cur.user_actions += 1
            if cur.snap is not None:
                self.model.set_state(cur.snap)
                self.stats["setstate_inside_callback"] += 1
        elif k == "seterr":
            # more process state the user controls: NumPy's floating-point error handling and the warnings filter.
            # With 'raise'/'error' a call may legitimately fail where it returned before, so results are only compared
            # within one such epoch (the RNG, input and operator invariants keep holding across it).
            np.seterr(all=act[1])
            self.stats["user_seterr_changes"] += 1
            self.new_epoch("seterr:" + act[1])
        elif k == "warnfilter":
            import warnings
            warnings.simplefilter(act[1])
            self.stats["user_warnfilter_changes"] += 1
            self.new_epoch("warn:" + act[1])
        elif k == "loglevel":
            # process state the user controls (S5): the level of the root logger
            import logging
            logging.getLogger().setLevel(getattr(logging, act[1]))
            self.stats["user_loglevel_changes"] += 1
        elif k == "clock":
            CLOCK.advance(act[1])
            self.fired["clock"] += 1
            if act[1] < 0:
                self.stats["clock_negative_jump"] += 1
        elif k == "reenter":
            cur.user_actions += 1
            menu = cur.step.get("menu") or []
            if act[1] < len(menu):
                sub = menu[act[1]]
                cur.depth += 1
                try:
                    self.reentrant_call(cur, sub)
                finally:
                    cur.depth -= 1

    def reentrant_call(self, cur, sub):
        from .calls import FNS, call
        if sub.get("fn") not in FNS or not self.slots_ok(sub.get("args", {})):
            return
        key = self.ckey(sub)
        same = key == self.ckey(cur.step)
        self.stats["reenter_same_key" if same else "reenter_other_key"] += 1
        args = self.resolve_args(sub.get("args", {}))
        try:
            res = call(sub["fn"], **args)
            out = ["ok", self.digest_of(res)]
        except (SimFault, HarnessBound, Violation):
            raise
        except Exception as e:  # cola's own refusal is a result
            if _raised_in_harness(e):
                raise
            out = [_exc_kind(e), type(e).__name__]
        self.events.append(("reenter", cur.sid, sub["fn"], jhash(out)))
        self.compare_result(key, out, sub, "reentrant call inside callback of step %d" % cur.sid)

    # ------------------------------------------------------------------------- arguments
    def resolve_args(self, args):
        out = {}
        for k, v in args.items():
            out[k] = self.resolve(v)
        return out

    def resolve(self, v):
        if isinstance(v, dict):
            if "slot" in v:
                return self.pool[v["slot"]].op
            if "arr" in v:
                return self.builder.array(v["arr"])
            if "algobj" in v:
                return self.algs[v["algobj"]][0]
            return {k: self.resolve(x) for k, x in v.items()}
        return v

    def slots_ok(self, args):
        for v in args.values():
            if isinstance(v, dict):
                if "slot" in v and v["slot"] not in self.pool:
                    return False
                if "algobj" in v and v["algobj"] not in self.algs:
                    return False
                if "slot" not in v and "arr" not in v and "algobj" not in v and not self.slots_ok(v):
                    return False
        return True

    def ckey_arg(self, v):
        if isinstance(v, dict) and "slot" in v and v["slot"] in self.pool:
            return {"op": _expand({"k": "ref", "slot": v["slot"]}, self.pool)}
        return v

    def ckey(self, step):
        """Key of a call in the result table: operands are identified by the VALUE they were built from (their
        ref-expanded recipe), not by the slot name, so that the same routine on a second, equal operator with the
        same key must return the same bits.  Operators manufactured by calls keep their slot identity."""
        def canon_arg(v):
            if isinstance(v, dict):
                if "algobj" in v and v["algobj"] in self.alg_specs:
                    return {"alg": self.alg_specs[v["algobj"]]}  # the object's construction (class + arguments), not its name
                if "slot" in v and v["slot"] in self.pool:
                    return {"op": _expand({"k": "ref", "slot": v["slot"]}, self.pool)}
                return {k: canon_arg(x) for k, x in v.items()}
            return v
        return canon({"fn": step["fn"], "args": {k: canon_arg(v) for k, v in step.get("args", {}).items()}})

    # ---------------------------------------------------------------------- result table
    def compare_result(self, key, out, step, where):
        prev = self.results.get(key)
        now_state = rm.state_digest()
        if prev is None or prev["out"][0] == "warned":
            self.results[key] = {"out": out, "state": now_state, "where": where}
            return
        if out[0] == "warned":
            # a warning the user asked to be raised (warnings filter "error"): whether Python issues a warning depends, by
            # the design of the warnings module and of lazily initialised third-party code (beartype / plum emit deprecation
            # warnings the first time a signature is resolved), on what ran before -- not a result to compare
            self.stats["calls_ended_by_a_raised_warning"] += 1
            return
        if prev["state"] != now_state:
            self.stats["repeat_with_different_global_state"] += 1
        self.stats["repeats_compared"] += 1
        if str(prev.get("where", "")).startswith("fault-free twin"):
            self.stats["repeat_after_fault"] += 1
        if prev["out"] != out:
            from .calls import tags
            keyed = "keyed" in tags(step["fn"])
            if self.prop == "C17" and not keyed:
                return
            inv = "I-KEYED" if self.prop == "C17" else "I-REPEAT"
            raise Violation(self.prop, inv, {
                "what": "same call, same operands, same key/params returned a different result",
                "fn": step["fn"], "first": prev["where"], "second": where,
                "first_digest": jhash(prev["out"]), "second_digest": jhash(out),
                "first_kind": prev["out"][0], "second_kind": out[0],
                "global_state_differs": prev["state"] != now_state,
                "rng_touched_by": world.RNG_TOUCH[-6:], "os_entropy_read_by": world.ENTROPY.touch[-6:]})

    # ------------------------------------------------------------------------ invariants
    def snapshot_eval(self, fn):
        """Evaluate fn() in a forked snapshot of this process and return its JSON result.
        Observations (to_dense, flatten/unflatten, products) are made on the snapshot so that the
        observer never perturbs the system under test (an operator that is changed by being used
        must not be 'primed' by the harness' own fingerprinting)."""
        r, w = os.pipe()
        pid = os.fork()
        if pid == 0:
            code = 0
            try:
                os.close(r)
                world.CRUMB_FD = None
                try:
                    ALLOC.disarm()
                except Exception:
                    pass
                self.harness_depth += 1
                # the observer looks at values under a neutral numeric environment, whatever the user has set in the run
                import warnings
                np.seterr(all="warn")
                warnings.simplefilter("ignore")
                try:
                    out = {"ok": fn()}
                except Violation as v:
                    out = {"viol": [v.prop, v.inv, v.detail]}
                except BaseException as e:  # noqa
                    out = {"err": "".join(traceback.format_exception(type(e), e, e.__traceback__))[-2500:]}
                data = json.dumps(out, default=str).encode()
                off = 0
                while off < len(data):
                    off += os.write(w, data[off:off + 65536])
            except BaseException:  # noqa
                code = 3
            finally:
                os._exit(code)
        os.close(w)
        chunks = []
        while True:
            b = os.read(r, 1 << 16)
            if not b:
                break
            chunks.append(b)
        os.close(r)
        _, st = os.waitpid(pid, 0)
        if not chunks:
            raise RuntimeError("observer snapshot died (wait status %d)" % st)
        out = json.loads(b"".join(chunks).decode())
        if "viol" in out:
            raise Violation(*out["viol"])
        if "err" in out:
            raise RuntimeError("observer snapshot failed:\n" + out["err"])
        return out["ok"]

    def digest_of(self, res):
        """Result digest; results that contain operators are fingerprinted on a snapshot (C18)."""
        if self.prop == "C18" and _first_op(res) is not None:
            return self.snapshot_eval(lambda: result_digest(res))
        self.harness_depth += 1
        import warnings
        try:
            with np.errstate(all="warn"), warnings.catch_warnings():  # neutral numeric environment, restored afterwards
                warnings.simplefilter("ignore")
                return result_digest(res)
        finally:
            self.harness_depth -= 1

    def check_invariants(self, sid, after):
        if self.prop == "C17":
            if not self.model.in_sync():
                raise Violation("C17", "I-RNG", {
                    "what": "process-wide NumPy generator state differs from the reference model "
                            "(cola read/advanced/reseeded it)",
                    "after": after, "rng_touched_by": world.RNG_TOUCH[-8:]})
            return
        _, deferred = self.observe(after)
        if deferred is not None:
            raise Violation(*deferred)

    def registry_sig(self):
        """Digest of every attribute registry (flatten is a pure function of operator state + registries)."""
        from cola.ops import LinearOperator
        acc = []
        stack = [LinearOperator]
        seen = set()
        while stack:
            c = stack.pop()
            if id(c) in seen:
                continue
            seen.add(id(c))
            acc.append((c.__module__ + "." + c.__qualname__, sorted(c.__dict__.get("_dynamic", {}).items())))
            stack.extend(c.__subclasses__())
        acc.sort(key=lambda t: t[0])
        return jhash(acc)

    def observe(self, after, res=None, want_digest=False):
        """All observations of a step in ONE forked snapshot: digest of a result that contains operators,
        fingerprints of new pool entries, every C18 invariant.  Returns (digest, deferred violation)."""
        before = Counter(self.stats)

        def body():
            out = {"digest": result_digest(res) if want_digest else None, "viol": None}
            new = {}
            for slot, e in self.pool.items():
                if e.fp is None:
                    e.fp = json.loads(json.dumps(rm.op_fingerprint(e.op)))
                    e.params = json.loads(json.dumps(rm.params_digest(e.op)))
                    new[slot] = [e.fp, e.params]
            out["new"] = new
            sig = self.registry_sig()
            out["sig"] = sig
            try:
                self._flat_skip = (sig == self.last_registry_sig)
                self._invariants_c18(after)
            except Violation as v:
                out["viol"] = [v.prop, v.inv, v.detail]
            out["flat_checked"] = sorted(self._flat_checked_now)
            out["stats"] = {k: v - before.get(k, 0) for k, v in self.stats.items() if v != before.get(k, 0)}
            return out

        self._flat_checked_now = set()
        out = self.snapshot_eval(body)
        for slot, (fp, params) in out["new"].items():
            self.pool[slot].fp, self.pool[slot].params = fp, params
        for k, v in out["stats"].items():
            self.stats[k] += v
        self.stats["observer_snapshots"] += 1
        self.last_registry_sig = out["sig"]
        self.flat_checked.update(out["flat_checked"])
        return out["digest"], out["viol"]

    def _invariants_c18(self, after):
        bad = self.ledger.check()
        if bad:
            raise Violation("C18", "I-INPUT", {
                "what": "caller-owned array changed (bytes/shape/strides/flags)", "arrays": bad[:4],
                "after": after})
        for label, a, dig in self.held:
            if arr_digest(a, with_layout=True) != dig:
                raise Violation("C18", "I-INPUT", {
                    "what": "an array returned earlier (and still held by the caller) was modified by a later call",
                    "which": label, "after": after})
        for name, (obj, dig) in self.algs.items():
            if self.alg_digest(obj) != dig:
                raise Violation("C18", "I-INPUT", {
                    "what": "caller-owned algorithm object was altered by a call", "alg": name,
                    "cls": type(obj).__name__, "after": after})
        for obj, dig in self.auto_defaults:
            if self.alg_digest(obj) != dig:
                raise Violation("C18", "I-INPUT", {
                    "what": "a shared default Auto() instance of a public signature was altered",
                    "attrs": sorted(vars(obj))[:6], "after": after})
        for slot, e in self.pool.items():
            self.check_entry(slot, e, after)

    def check_entry(self, slot, e, after):
        fp = json.loads(json.dumps(rm.op_fingerprint(e.op)))
        if fp != e.fp:
            diff = [k for k in fp if fp[k] != e.fp.get(k)]
            raise Violation("C18", "I-OP", {
                "what": "pool operator no longer has the class/shape/dtype/annotations/matrix it was created with",
                "slot": slot, "changed": diff, "was": {k: e.fp[k] for k in diff}, "now": {k: fp[k] for k in diff},
                "after": after})
        if e.structural:
            pd = json.loads(json.dumps(rm.params_digest(e.op)))
            if pd != e.params:
                raise Violation("C18", "I-OP", {
                    "what": "parameter arrays of pool operator changed", "slot": slot, "after": after})
        self.check_flat(slot, e, after)

    def check_flat(self, slot, e, after):
        if self._flat_skip and slot in self.flat_checked:
            # flatten() is a pure function of the operator's state (just verified unchanged: I-OP) and of the
            # attribute registries (digest unchanged since this operator's last full I-FLAT check)
            self.stats["flat_checks_skipped_unchanged"] += 1
            return
        self._flat_checked_now.add(slot)
        op = e.op
        try:
            leaves, unflatten = op.flatten()
        except Exception as ex:
            raise Violation("C18", "I-FLAT", {"what": "flatten() raised", "exc": type(ex).__name__, "slot": slot,
                                              "after": after})
        try:
            op2 = unflatten(leaves)
            fp2 = json.loads(json.dumps(rm.op_fingerprint(op2)))
        except Exception as ex:
            raise Violation("C18", "I-FLAT", {"what": "unflatten(leaves) raised", "exc": type(ex).__name__,
                                              "slot": slot, "after": after})
        if fp2 != e.fp:
            diff = [k for k in fp2 if fp2[k] != e.fp.get(k)]
            raise Violation("C18", "I-FLAT", {
                "what": "flatten -> unflatten does not round-trip", "slot": slot, "changed": diff,
                "was": {k: e.fp[k] for k in diff}, "now": {k: fp2[k] for k in diff}, "after": after})
        self.stats["flat_roundtrips"] += 1
        if not e.structural:
            return
        walk = rm.walk_arrays(op)
        leaf_ids = sorted(id(x) for x in leaves)
        walk_ids = sorted(id(a) for _, a in walk)
        nonarr = [type(x).__name__ for x in leaves if not isinstance(x, np.ndarray)]
        if leaf_ids != walk_ids or nonarr:
            missing = [p for p, a in walk if id(a) not in set(leaf_ids)]
            raise Violation("C18", "I-FLAT", {
                "what": "flatten() leaves are not exactly the operator's array parameters",
                "slot": slot, "n_leaves": len(leaves), "n_params": len(walk), "missing_params": missing[:6],
                "non_array_leaves": nonarr[:4], "after": after,
                "signature": self.registry_signature(op, missing)})
        # substitution: perturb one leaf (seed-derived choice), exactly that parameter changes
        ids = [id(x) for x in leaves]
        uniq = [i for i, x in enumerate(ids) if ids.count(x) == 1]  # one array passed as two parameters: skip those
        if uniq and "sparse" not in canon(e.recipe):
            j = uniq[sub_rng(self.seed, "subst", slot, after).randrange(len(uniq))]
            new = list(leaves)
            pert = np.array(leaves[j], copy=True)
            if pert.size:
                if pert.dtype.kind in "iu":
                    pert = pert[::-1].copy() if pert.ndim else np.asarray(pert + 1)
                else:
                    pert = np.asarray(pert + np.asarray(1.5, dtype=pert.dtype))  # 0-d + 0-d gives a scalar
            new[j] = pert
            try:
                op3 = unflatten(new)
                w3 = rm.walk_arrays(op3)
            except Exception as ex:
                raise Violation("C18", "I-FLAT", {"what": "unflatten(substituted leaves) raised",
                                                  "exc": type(ex).__name__, "slot": slot, "after": after})
            target = [i for i, (_, a) in enumerate(walk) if a is leaves[j]]
            ok = len(w3) == len(walk)
            if ok:
                for i, ((p0, a0), (p1, a1)) in enumerate(zip(walk, w3)):
                    if i in target:
                        ok = ok and (a1 is pert or arr_digest(a1) == arr_digest(pert))
                    else:
                        ok = ok and arr_digest(a1) == arr_digest(a0)
            if not ok:
                raise Violation("C18", "I-FLAT", {
                    "what": "substituting one leaf did not change precisely that parameter", "slot": slot,
                    "leaf": j, "after": after})
            if json.loads(json.dumps(rm.params_digest(op))) != e.params:
                raise Violation("C18", "I-FLAT", {"what": "leaf substitution altered the original operator",
                                                  "slot": slot, "after": after})
            self.stats["flatten_leaf_substituted"] += 1

    def registry_signature(self, op, missing):
        """Structural signature used to match the known first-instance-registry finding."""
        sig = []
        try:
            def visit(o, path):
                if not rm.is_op(o):
                    if isinstance(o, (tuple, list)):
                        for i, v in enumerate(o):
                            visit(v, f"{path}[{i}]")
                    return
                dyn = type(o)._dynamic
                for k, v in sorted(vars(o).items()):
                    if k in rm.BASE_FIELDS:
                        continue
                    has = bool(rm.walk_arrays(v))
                    if has and dyn.get(k) is False:
                        sig.append({"cls": type(o).__name__, "attr": k, "registry": False, "holds_arrays": True})
                    visit(v, f"{path}.{k}")
            visit(op, "")
        except Exception:
            pass
        return sig

    # ----------------------------------------------------------------------------- steps
    def run(self):
        steps = self.program["steps"]
        if len(steps) > MAX_STEPS:
            raise HarnessBound("steps")
        s0 = self.program.get("rng0", self.seed & 0xFFFFFFFF)
        self.model.reseed(s0)  # implicit step 0: import-time state of np.random is OS entropy
        for step in steps:
            self.exec_step(step)
        return self

    def exec_step(self, step):
        op = step["op"]
        sid = step["id"]
        out_step = {k: v for k, v in step.items() if k not in ("plan", "_twin")}
        self.step_out[sid] = out_step
        h = getattr(self, "op_" + op)
        h(step, out_step)

    # user party at top level
    def op_user(self, step, out_step):
        sid = step["id"]
        cur = Cur(step, True, None, {})
        cur.snap = self.saved_states.get(step.get("slot"))
        self.cur = cur
        try:
            act = step["act"]
            if act[0] == "getstate":
                self.saved_states[step.get("slot", "s")] = self.model.get_state()
            elif act[0] == "setstate":
                st = self.saved_states.get(step.get("slot", "s"))
                if st is not None:
                    self.model.set_state(st)
            else:
                self.user_action(cur, act)
        finally:
            self.cur = None
        self.events.append(("user", sid, step["act"][0]))
        self.sched_sig.append("u:" + step["act"][0])
        if self.prop == "C17":  # a user-only step runs no cola code: nothing for the C18 observer to look at
            self.check_invariants(sid, "user step %d" % sid)

    def op_drop(self, step, out_step):
        """The user lets go of an operator (a temporary goes out of scope): the object is really freed, so that a later
        object may reuse its address (id())."""
        import gc
        slot = step["slot"]
        if slot in self.pool:
            self.dropped_ids[slot] = id(self.pool[slot].op)
        for name in [k for k in self.pool if k == slot or k.startswith("~h")]:
            del self.pool[name]
        self.flat_checked.discard(slot)
        self._pending_res = self._held_res = None
        gc.collect()
        if slot in self.reuse_wanted and slot in self.dropped_ids:
            # the allocator seam (sim/addr.py): nothing long-lived may take the dead operator's address before the make
            # step that is to reuse it
            from . import addr
            ph, others = addr.occupy(self.dropped_ids[slot], 20000)
            del others
            if ph is not None:
                self.placeholders[slot] = [ph]
            del ph
        self.stats["operators_dropped"] += 1
        self.events.append(("drop", step["id"], slot))
        self.sched_sig.append("drop")

    def op_mkalg(self, step, out_step):
        """The user builds an algorithm object once and reuses it across calls."""
        from .calls import _alg
        name = step["name"]
        if name in self.algs or not self.slots_ok(step.get("kw", {})):
            self.events.append(("skip", step["id"]))
            return
        kw = self.resolve_args(step.get("kw", {}))
        obj = _alg(step["cls"], kw)
        self.algs[name] = (obj, self.alg_digest(obj))
        self.alg_specs[name] = {"cls": step["cls"], "kw": {k: self.ckey_arg(v) for k, v in step.get("kw", {}).items()}}
        self.stats["alg_objects_made"] += 1
        self.events.append(("mkalg", step["id"], step["cls"]))
        self.sched_sig.append("mkalg:" + step["cls"])

    def new_epoch(self, tag):
        self.import_epoch = self.import_epoch + [tag]
        self.results_by_epoch.update({"|".join(self.import_epoch[:-1]) + "#" + k: v for k, v in self.results.items()})
        self.results = {}

    def op_import(self, step, out_step):
        import importlib
        try:
            importlib.import_module(step["module"])
            self.stats["optional_module_imported"] += 1
        except ImportError:
            pass
        # importing an optional module may legitimately register more dispatch rules under shared names
        # (sqrt / inverse of Nystrom preconditioners): results are only compared within one import epoch
        self.new_epoch(step["module"].rsplit(".", 1)[-1])
        self.events.append(("import", sid_of(step), step["module"]))
        self.sched_sig.append("import")
        self.check_invariants(step["id"], "import step %d" % step["id"])

    def op_make(self, step, out_step):
        sid = step["id"]
        slot = step["slot"]
        if slot in self.pool or not recipe_refs_ok(step["recipe"], self.pool):
            self.events.append(("skip", sid))
            return
        fault = self.prepare_faults(step, out_step, lambda: self._do_make(step, record=False))
        outcome = self._guarded(step, fault, lambda: self._do_make(step, record=True))
        self.events.append(("make", sid, slot, outcome[0], outcome[1] if outcome[0] == "exc" else ""))
        self.sched_sig.append("make:%s:%s" % (step["recipe"]["k"], outcome[0]))
        self.check_invariants(sid, "make step %d (%s)" % (sid, step["recipe"]["k"]))

    def _do_make(self, step, record):
        target = self.dropped_ids.get(step.get("reuse_id_of")) if record else None
        first = record and target is None and step.get("slot") in self.reuse_wanted
        if first:
            # the allocator seam: this operator is to die and its address to be reused -- make it live in a pool we own
            from . import addr
            self.builder.op(step["recipe"])  # warm the ledger: only the operator objects themselves are allocated below
            if self.owned_pool is None:
                self.owned_pool = addr.OwnedPool()
            else:
                self.owned_pool.arrange([], 0, 200)
        op = self.builder.op(step["recipe"])
        if first:
            pins = []
            while rm.is_op(op) and not self.owned_pool.contains(id(op)) and len(pins) < 6:
                pins.append(op)  # it sits on a block another pool had free: pin that block and build again
                op = self.builder.op(step["recipe"])
            dbg = "size%d:pins%s" % (self.owned_pool.size, sorted({(id(p) >> 14) - self.owned_pool.pool for p in pins}))
            del pins
            self.owned_pool.refill()
            if not self.owned_pool.contains(id(op)):
                self.stats["address_pool_missed"] += 1
                self.stats["address_pool_missed:" + dbg + ":res%d" % len(self.owned_pool.reserves)] += 1
        if target is not None and rm.is_op(op) and id(op) != target and self.owned_pool is not None:
            # address reuse after free, decided by the simulator (sim/addr.py); the first build above warmed the ledger
            from . import addr
            holder = self.placeholders.pop(step["reuse_id_of"], [])
            if holder and self.owned_pool.contains(target):
                warm = op
                op2, hit, trace = addr.build_at(self.owned_pool, holder, target, lambda: self.builder.op(step["recipe"]))
                if hit:
                    op = op2
                else:
                    self.stats["address_hunt_failed:" + str(trace[-1])] += 1
                del warm, op2
            else:
                self.stats["address_hunt_failed:" + ("no-placeholder" if not holder else "not-in-pool")] += 1
        if target is not None and rm.is_op(op):
            self.stats["address_reused_after_drop" if id(op) == target else "address_hunt_failed"] += 1
        if not rm.is_op(op):
            return op
        if record:
            structural = step.get("structural", True) and all(
                self.pool[s].structural for s in recipe_slots(step["recipe"]) if s in self.pool)
            # fingerprint is taken by the observer snapshot that follows the step (never by using the operator here)
            self.pool[step["slot"]] = Entry(op, None, None, structural, step["recipe"], step["id"])
            self.stats["ops_made:" + type(op).__name__.split("[")[0]] += 1
            # reach probes: order of first instantiation per concrete class (pure attribute walk, no product)
            cname = type(op).__name__
            has = bool(rm.walk_arrays(op))
            if cname not in self.class_first:
                self.class_first[cname] = has
                self.stats["distinct_concrete_classes_created"] += 1
            elif self.class_first[cname] != has:
                self.stats["class_first_arrayless_then_arrays" if has else "class_first_arrays_then_arrayless"] += 1
            k = step["recipe"].get("k")
            if k == "to":
                self.stats["to_dtype_move"] += 1
            elif k == "ann":
                self.stats["annotate_then_check_original"] += 1
        return op

    def op_call(self, step, out_step):
        from .calls import FNS, call, tags
        sid = step["id"]
        if step["fn"] not in FNS or not self.slots_ok(step.get("args", {})):
            self.events.append(("skip", sid))
            return
        key = self.ckey(step)
        args = self.resolve_args(step.get("args", {}))

        def body():
            return call(step["fn"], **args)

        observed = None
        if self.prop == "C17" and self.cfg.get("line_observer"):
            body, observed = self._line_observed(body)
        fault = self.prepare_faults(step, out_step, body)
        self._pending_res = None
        self._held_res = None
        self._next_product_cap = self.hutch_cap(step, args)
        self._cur_ckey = key
        outcome = self._guarded(step, fault, body, store=step.get("out"))
        cur_used = self._last_used
        after = "call step %d (%s, outcome %s)" % (sid, step["fn"], outcome[0])
        if observed:
            raise Violation("C17", "I-RNG", {
                "what": "the process-wide NumPy generator differs from the reference model WHILE the call is in flight (seen by a "
                        "concurrent reader -- another caller thread drawing from np.random; the call may restore it before it returns)",
                "fn": step["fn"], "cola_line": observed[0], "line_event": observed[1], "rng_touched_by": world.RNG_TOUCH[-6:]})
        deferred = None
        if self.prop == "C18":
            # ONE forked observer per step: result digest (if it contains operators) + all invariants
            dig, deferred = self.observe(after, self._pending_res, outcome[0] == "ok" and outcome[1] is None)
            if outcome[0] == "ok" and outcome[1] is None:
                outcome[1] = dig
                self._last_outcome = outcome[:2]
            self._pending_res = None
        self.events.append(("call", sid, step["fn"], outcome[0], jhash(outcome[1:]), len(cur_used)))
        if self.prop == "C18" and outcome[0] == "ok":
            self.hold_result(self._held_res, "result of step %d (%s)" % (sid, step["fn"]))
        self._held_res = None
        self.stats["calls:" + step["fn"]] += 1
        if "alg" not in step.get("args", {}) and step["fn"] in ("inv", "solve", "pinv_solve", "logdet", "slogdet", "unary",
                                                                "unary_apply", "eig", "svd", "diag_default",
                                                                "trace_default", "eigmax_d", "eigmin_d", "rsolve"):
            self.stats["default_Auto_paths"] += 1
        self.sched_sig.append("call:%s:%s:%s" % (step["fn"], outcome[0], ",".join(sorted(set(
            a[0] for a in cur_used.values())))))
        if "shim" in tags(step["fn"]):
            self.stats["shim_calls"] += 1
        if outcome[0] in ("ok", "exc", "warned"):
            self.compare_result(key, outcome[:2], step, "step %d" % sid)
            if outcome[0] == "ok" and "hutch" in tags(step["fn"]):
                self.check_hutch_steps(step, args)
        if outcome[0] == "faulted-returned" and "hutch" in tags(step["fn"]):
            self.check_hutch_steps(step, args)  # the iteration cap also holds when products were non-finite
        if self.prop == "C18":
            if deferred is not None:
                raise Violation(*deferred)
        else:
            self.check_invariants(sid, after)

    def _line_interrupted(self, body, at, cur):
        """Crash at an arbitrary SOURCE LINE: the `at`-th line event of this step inside cola/ raises SimInterrupt (an asynchronous
        interrupt: a KeyboardInterrupt subclass) in the frame that is about to execute that line.  With at=None the events are only
        counted and the first / last occurrence of every distinct line recorded (the twin of the line-level enumeration)."""
        import sys
        cola_dir = world.REPO.rstrip("/") + "/cola/"
        n = [0]
        first, last = {}, {}
        self._last_line_points = (n, first, last)
        depth_mod = [0]

        def local(frame, event, arg):
            if event == "line" and not depth_mod[0] and self.harness_depth == 0:
                n[0] += 1
                if at is None:
                    w = (frame.f_code.co_filename, frame.f_lineno)
                    first.setdefault(w, n[0])
                    last[w] = n[0]
                elif n[0] == at:
                    cur.fault_fired.add("interrupt")
                    self.fired["interrupt"] += 1
                    self._interrupt_line = "%s:%d" % (frame.f_code.co_filename[len(cola_dir) - 5:], frame.f_lineno)
                    sys.settrace(None)
                    raise SimInterrupt("line event %d" % at)
            return local

        def module_body(frame, event, arg):
            if event == "return":
                depth_mod[0] -= 1
            return module_body

        def glob(frame, event, arg):
            if event == "call":
                if frame.f_code.co_name == "<module>":
                    depth_mod[0] += 1
                    return module_body
                if frame.f_code.co_filename.startswith(cola_dir):
                    return local
            return None

        def wrapped():
            old = sys.gettrace()
            sys.settrace(glob)
            try:
                return body()
            finally:
                sys.settrace(old)

        return wrapped

    def _line_observed(self, body):
        """Continuous observer: after EVERY source line the call executes inside cola/ the process-wide generator must be in the
        reference model's state (exhaustive over the pre-emption points of this execution: what a second caller thread that
        only draws from np.random could see).  Pure reads; the allocation-fault seam is paused while the observer looks."""
        import sys
        found = []
        cola_dir = world.REPO.rstrip("/") + "/cola/"
        model, stats = self.model, self.stats

        def local(frame, event, arg):
            if event == "line" and not found:
                ALLOC.pause()
                try:
                    stats["observer_line_events"] += 1
                    if not model.quick_sync():
                        found.extend(["%s:%d" % (frame.f_code.co_filename[len(cola_dir) - 5:], frame.f_lineno),
                                      stats["observer_line_events"]])
                finally:
                    ALLOC.resume()
            return local

        def glob(frame, event, arg):
            if event == "call" and frame.f_code.co_filename.startswith(cola_dir) and frame.f_code.co_name != "<module>":
                return local
            return None

        def wrapped():
            old = sys.gettrace()
            sys.settrace(glob)
            try:
                return body()
            finally:
                sys.settrace(old)

        return wrapped, found

    def hold_result(self, res, label):
        """The caller keeps what a call returned: those arrays are caller-owned from then on (I-INPUT)."""
        arrs = []

        def walk(x, depth=0):
            if isinstance(x, np.ndarray):
                arrs.append(x)
            elif isinstance(x, (tuple, list)) and depth < 3:
                for v in x:
                    walk(v, depth + 1)
            elif isinstance(x, dict) and depth < 3:
                for v in x.values():
                    walk(v, depth + 1)

        walk(res)
        for a in arrs[:4]:
            self.held.append((label, a, arr_digest(a, with_layout=True)))
        del self.held[:-16]
        self.stats["results_held"] += len(arrs[:4])

    def hutch_cap(self, step, args):
        """max(1, max_iters) when the step is a Hutchinson call whose operand is directly a user operator (Probe)."""
        if self.prop != "C17" or step["fn"] not in ("hutch", "diag_hutch", "trace_hutch"):
            return None
        A = args.get("A")
        if type(A).__name__ != "LinearOperator" or not getattr(getattr(A, "_matmat", None), "__name__", "").startswith("probe"):
            return None
        alg = args.get("alg")
        mi = getattr(alg, "max_iters", None) if alg is not None else step["args"].get("max_iters", 10000)
        return None if mi is None else (max(1, mi), mi)

    def check_hutch_steps(self, step, args):
        """I-STEPS: Hutchinson performs <= max(1, max_iters) products (measured at the Probe seam)."""
        if self.prop != "C17" or step["fn"] not in ("hutch", "diag_hutch", "trace_hutch"):
            return
        A = args.get("A")
        if type(A).__name__ != "LinearOperator" or not getattr(getattr(A, "_matmat", None), "__name__",
                                                                   "").startswith("probe"):
            return
        alg = args.get("alg")
        mi = getattr(alg, "max_iters", None) if alg is not None else step["args"].get("max_iters", 10000)
        if mi is None:
            return
        n = self._last_ncb
        self.stats["hutch_products_counted"] += 1
        if n >= max(1, mi):
            self.stats["hutch_hit_max_iters"] += 1
        else:
            self.stats["hutch_stopped_by_tol"] += 1
        if n > max(1, mi):
            raise Violation("C17", "I-STEPS", {
                "what": "Hutchinson estimator performed more operator products than max_iters",
                "products": n, "max_iters": mi})

    # ------------------------------------------------------------------ fault machinery
    def prepare_faults(self, step, out_step, body):
        """Resolve the step's fault plan.  Faulted steps first run a fault-free *twin* in a
        forked copy of this very process state (reference outcome, allocation count, callback
        count); symbolic positions are then resolved against the twin."""
        x = step.get("x") if self.mode == "explicit" or "x" in step else None
        plan = step.get("plan") or {}
        f = {"alloc_k": None, "minb": 0, "raise_at": None, "nonfinite_at": None, "pbar_at": None, "twin": None,
             "explicit": x is not None, "plan": plan}
        if x is not None:
            cb = x.get("cb") or {}
            # (a clock jump is a fault too: the result under it must equal the fault-free twin's)
            faulted = (x.get("alloc") is not None or x.get("pbar_fail") is not None or bool(x.get("clock"))
                       or x.get("interrupt") is not None or any(a[0] in ("raise", "nonfinite") for a in cb.values()))
            f["interrupt_at"] = x.get("interrupt")
            if x.get("alloc") is not None:
                f["alloc_k"], f["minb"] = x["alloc"]["k"], x["alloc"].get("minb", 0)
            f["pbar_at"] = x.get("pbar_fail")
        else:
            faulted = any(plan.get(k) for k in ("raise", "alloc", "nonfinite", "pbar_fail", "clock"))
        if not faulted:
            return f
        if not world.HAVE_SIMALLOC:
            plan = {k: v for k, v in plan.items() if k != "alloc"}
            f["alloc_k"] = None
        if "_twin" in step:
            twin = step["_twin"]
        else:
            twin = self.run_twin(step, body, f["minb"] if x is not None else (plan.get("alloc") or {}).get("minb", 0))
        f["twin"] = twin
        self.stats["twins"] += 1
        if x is None:
            g = sub_rng(self.seed, "faultpos", step["id"])
            ncb, nalloc = twin["ncb"], twin["nalloc"]
            if plan.get("raise") and ncb > 0:
                f["raise_at"] = _pos(plan["raise"].get("pos", "uniform"), ncb, g)
            if plan.get("nonfinite") and ncb > 0:
                f["nonfinite_at"] = _pos(plan["nonfinite"].get("pos", "uniform"), ncb, g)
                if f["nonfinite_at"] == f["raise_at"]:
                    f["nonfinite_at"] = None
            if plan.get("alloc") and nalloc > 0:
                if "k" in plan["alloc"]:
                    f["alloc_k"] = plan["alloc"]["k"]
                else:
                    f["alloc_k"] = _pos(plan["alloc"].get("pos", "uniform"), nalloc, g)
                f["minb"] = plan["alloc"].get("minb", 0)
            if plan.get("pbar_fail") and twin["pbar_updates"] > 0:
                f["pbar_at"] = _pos(plan["pbar_fail"].get("pos", "uniform"), twin["pbar_updates"] + 1, g)
        return f

    def run_twin(self, step, body, minb):
        r, w = os.pipe()
        pid = os.fork()
        if pid == 0:
            code = 0
            try:
                os.close(r)
                world.CRUMB_FD = None
                cur = Cur(step, True, None, {})
                cur.cb = {}
                self.cur = cur
                FakeBar.fail_hook = None
                upd0 = FakeBar.updates
                world.reset_sections()
                ALLOC.arm(-1, minb)
                try:
                    res = body()
                    n = ALLOC.disarm()[0]
                    self.harness_depth += 1
                    # digests are always taken under the observer's neutral numeric environment (this child exits next)
                    import warnings
                    np.seterr(all="warn")
                    warnings.simplefilter("ignore")
                    out = ["ok", result_digest(res)]
                except BaseException as e:  # noqa
                    n = ALLOC.disarm()[0]
                    out = [_exc_kind(e), type(e).__name__]
                msg = json.dumps({"out": out, "nalloc": n, "ncb": cur.ncb, "pbar_updates": FakeBar.updates - upd0,
                                  "rng_sections": world.rng_sections()})
                os.write(w, msg.encode())
            except BaseException:  # noqa
                code = 3
            finally:
                os._exit(code)
        os.close(w)
        chunks = []
        while True:
            b = os.read(r, 1 << 16)
            if not b:
                break
            chunks.append(b)
        os.close(r)
        os.waitpid(pid, 0)
        if not chunks:
            raise RuntimeError("twin died without output")
        return json.loads(b"".join(chunks).decode())

    def _materialise(self, sid, cur, f, k):
        """Record what actually happened at the step's yield points / fault sites (explicit form)."""
        x = {}
        if cur.used:
            x["cb"] = cur.used
        if k is not None:
            x["alloc"] = {"k": k, "minb": f["minb"]}
        if f["pbar_at"] is not None:
            x["pbar_fail"] = f["pbar_at"]
        if cur.clock_list:
            x["clock"] = cur.clock_list
        if f.get("interrupt_at") is not None:
            x["interrupt"] = f["interrupt_at"]
        if x:
            self.step_out[sid]["x"] = x

    def _guarded(self, step, f, body, store=None):
        """Run body() as the cola call in flight of `step` with the resolved faults."""
        sid = step["id"]
        cur = Cur(step, f["explicit"], f["plan"], {"raise_at": f["raise_at"], "nonfinite_at": f["nonfinite_at"]})
        cur.snap = self.model.get_state()
        cap = getattr(self, "_next_product_cap", None)
        if cap is not None and step["op"] == "call":
            cur.product_cap, cur.product_cap_mi = cap
        self._next_product_cap = None
        pre_state = rm.state_digest()
        self.cur = cur
        world.reset_sections()
        if f["pbar_at"] is not None:
            cnt = {"n": 0}

            def hook(kind, cnt=cnt, at=f["pbar_at"]):
                i = cnt["n"]
                cnt["n"] += 1
                if i == at:
                    cur.fault_fired.add("pbar_fail")
                    self.fired["pbar_fail"] += 1
                    return True
                return False

            FakeBar.fail_hook = hook
        else:
            FakeBar.fail_hook = None
        if cur.clock_list:
            def chook(clock, cur=cur):
                if cur.clock_i < len(cur.clock_list):
                    clock.advance(cur.clock_list[cur.clock_i])
                    cur.clock_i += 1
                    self.fired["clock"] += 1

            CLOCK.hook = chook
        else:
            CLOCK.hook = None
        k = f["alloc_k"]
        res = None
        if k is not None:
            world.crumb({"armed": sid, "k": k, "minb": f["minb"], "what": step.get("fn") or step.get("recipe", {}).get("k")})
        if f.get("interrupt_at") is not None or getattr(self, "_count_lines", False):
            body = self._line_interrupted(body, f.get("interrupt_at"), cur)
        ALLOC.arm(-1 if k is None else k, f["minb"])
        try:
            try:
                res = body()
                st = ALLOC.disarm()
                outcome = None
            except BaseException:
                st = ALLOC.disarm()
                raise
        except (SimFault, SimInterrupt):
            outcome = ["simfault", ""]
        except (HarnessBound, Violation):
            self._materialise(sid, cur, f, k)  # the replay file must contain the action that exposed it
            raise
        except BaseException as e:
            if isinstance(e, (KeyboardInterrupt, SystemExit)):
                raise
            fired = st[1] >= 0 or bool(cur.fault_fired)
            if self.ledger.readonly and isinstance(e, ValueError) and "read-only" in str(e):
                self.culprits.append(_cola_frame(e))
            if fired:
                outcome = ["faulted", type(e).__name__]
            elif _raised_in_harness(e):
                raise
            else:
                outcome = [_exc_kind(e), type(e).__name__]
        finally:
            if "nonfinite" in cur.fault_fired:
                signal.alarm(0)
                world.crumb({"nonfinite": None, "done": sid})
            self.cur = None
            FakeBar.fail_hook = None
            CLOCK.hook = None
        if k is not None:
            world.crumb({"armed": None, "disarmed": sid})
        alloc_fired = st[1] >= 0
        if alloc_fired:
            self.fired["alloc_fail"] += 1
            self.stats["alloc_fail_fired:" + step.get("fn", "make:" + step.get("recipe", {}).get("k", "?"))] += 1
            if step["op"] == "make":
                self.stats["alloc_fail_in_constructor"] += 1
            tw = f.get("twin") or {}
            for a, b in tw.get("rng_sections", []):
                if a <= st[1] < b:
                    self.stats["alloc_fail_inside_rng_section"] += 1
                    break
        if outcome is None:
            if alloc_fired or cur.fault_fired - {"clock"}:
                # a fault was injected but the call still returned: absorbed (e.g. NumPy falls
                # back to an unbuffered path) or a non-finite product -- no expected result
                if alloc_fired:
                    self.stats["alloc_fail_absorbed"] += 1
                outcome = ["faulted-returned", ""]
            else:
                self._held_res = res if step["op"] == "call" else None
                if step["op"] == "make":
                    outcome = ["ok", ""]
                elif self.prop == "C18" and _first_op(res) is not None:
                    outcome = ["ok", None]  # digest is taken by the observer snapshot that follows the step
                    self._pending_res = res
                else:
                    outcome = ["ok", self.digest_of(res)]
                if store and rm.is_op(_first_op(res)) and store not in self.pool:
                    self.pool[store] = Entry(_first_op(res), None, None, False,
                                             {"k": "result", "of": step["fn"], "call": getattr(self, "_cur_ckey", store)}, sid)
                elif self.prop == "C18" and step["op"] == "call":
                    # the caller keeps every operator a call returned (Q/T of lanczos, factors, eigenvector operators):
                    # they join the pool under anonymous slots (the most recent 6) and are watched like any other value
                    held = [o for o in _all_ops(res) if o is not None][:3]
                    for j, o in enumerate(held):
                        if any(e.op is o for e in self.pool.values()):
                            continue
                        name = "~h%d_%d" % (sid, j)
                        self.pool[name] = Entry(o, None, None, False, {"k": "result", "of": step["fn"], "which": j,
                                                                        "call": getattr(self, "_cur_ckey", name)}, sid)
                        self.stats["result_operators_held"] += 1
                    anon = [nm for nm in self.pool if nm.startswith("~h")]
                    for nm in anon[:-6]:
                        del self.pool[nm]
        self._materialise(sid, cur, f, k)
        self._last_used = cur.used
        self._last_ncb = cur.nprod_top
        self._last_ncb_all = cur.ncb
        self._last_nalloc = st[0]
        self._last_outcome = outcome[:2]
        self.stats["callbacks"] += cur.ncb
        if cur.user_actions and step["op"] == "call":
            self.stats["calls_with_user_action_inside"] += 1
        for a in cur.used.values():
            if a[0] == "raise":
                pos = int([i for i, b in cur.used.items() if b is a][0])
                tw = f.get("twin") or {}
                n = tw.get("ncb", 0)
                where = "first" if pos == 0 else ("last" if pos == n - 1 else "middle")
                self.stats["raise_at_" + where] += 1
        tw = f.get("twin")
        if tw is not None and step["op"] == "call" and tw["out"][0] in ("ok", "exc", "warned"):
            # reference outcome of the fault-free twin: what a later fault-free repeat must return
            key = self.ckey(step)
            if key not in self.results:
                self.results[key] = {"out": tw["out"], "state": pre_state,
                                     "where": "fault-free twin of step %d" % sid}
            if outcome[0] in ("simfault", "faulted", "faulted-returned"):
                self.stats["faulted_calls"] += 1
        if outcome[0] == "exc":
            self.stats["exc:" + outcome[1]] += 1
        return outcome


def sid_of(step):
    return step["id"]


def _all_ops(res, depth=0):
    if rm.is_op(res):
        return [res]
    out = []
    if isinstance(res, (tuple, list)) and depth < 3:
        for r in res:
            out.extend(_all_ops(r, depth + 1))
    return out


def _first_op(res):
    if rm.is_op(res):
        return res
    if isinstance(res, (tuple, list)):
        for r in res:
            if rm.is_op(r):
                return r
    return None


def _pos(spec, n, g):
    if n <= 0:
        return None
    if isinstance(spec, int):
        return min(spec, n - 1)
    if spec == "first":
        return 0
    if spec == "last":
        return n - 1
    if spec == "mid":
        return n // 2
    return g.randrange(n)


_ARGERR = re.compile(r"^([\w\.<>]+)\(\) (takes|got|missing)")


def _cola_frame(e):
    tb = e.__traceback__
    last = None
    while tb is not None:
        fn = tb.tb_frame.f_code.co_filename
        if "/cola/" in fn:
            last = "%s:%d in %s" % (fn[fn.index("/cola/") + 1:], tb.tb_lineno, tb.tb_frame.f_code.co_name)
        tb = tb.tb_next
    return last


def _exc_kind(e):
    return "warned" if isinstance(e, Warning) else "exc"


def _raised_in_harness(e):
    if isinstance(e, (FloatingPointError, Warning)):
        # the user's strict numeric mode (np.seterr raise / warnings as errors) turned a floating-point event into an
        # exception -- possibly inside a user-supplied scalar function or operator (harness code playing the user); never a
        # harness failure: the harness' own observations run under a neutral numeric environment
        return False
    if isinstance(e, TypeError):
        # wrong-arity errors are raised in the CALLER's frame; if the callee named in the message is
        # not one of the harness' own thin wrappers it is cola's refusal (e.g. Identity.to(device, dtype))
        m = _ARGERR.match(str(e))
        if m and not m.group(1).split(".")[-1].startswith("_") and m.group(1).split(".")[0] not in (
                "call", "Builder", "Ctx"):
            return False
    tb = e.__traceback__
    last = None
    while tb is not None:
        last = tb
        tb = tb.tb_next
    if last is None:
        return False
    fn = last.tb_frame.f_code.co_filename
    return os.path.abspath(fn).startswith(SIM_DIR)


def call_key(step):
    return canon({"fn": step["fn"], "args": step.get("args", {})})


def _expand(r, pool, depth=0):
    """Recipe with every {"k": "ref"} replaced by the referenced slot's own (expanded) recipe."""
    if depth > 12:
        return r
    if isinstance(r, dict):
        if r.get("k") == "ref" and r.get("slot") in pool:
            rec = pool[r["slot"]].recipe
            if rec.get("k") == "result":  # a value manufactured by a call: identified by the call that produced it
                return {"k": "resultref", "call": rec.get("call", r["slot"]), "which": rec.get("which", 0)}
            return _expand(rec, pool, depth + 1)
        return {k: _expand(v, pool, depth + 1) for k, v in r.items()}
    if isinstance(r, list):
        return [_expand(v, pool, depth + 1) for v in r]
    return r


def _has_result_ref(r, pool, depth=0):
    if depth > 12:
        return False
    if isinstance(r, dict):
        if r.get("k") == "ref":
            e = pool.get(r.get("slot"))
            return e is None or e.recipe.get("k") == "result" or _has_result_ref(e.recipe, pool, depth + 1)
        return any(_has_result_ref(v, pool, depth + 1) for v in r.values())
    if isinstance(r, list):
        return any(_has_result_ref(v, pool, depth + 1) for v in r)
    return False


def recipe_slots(r, out=None):
    out = [] if out is None else out
    if isinstance(r, dict):
        if r.get("k") == "ref":
            out.append(r.get("slot"))
        for v in r.values():
            recipe_slots(v, out)
    elif isinstance(r, list):
        for v in r:
            recipe_slots(v, out)
    return out


def recipe_refs_ok(r, pool):
    if isinstance(r, dict):
        if r.get("k") == "ref" and r.get("slot") not in pool:
            return False
        return all(recipe_refs_ok(v, pool) for v in r.values())
    if isinstance(r, list):
        return all(recipe_refs_ok(v, pool) for v in r)
    return True


# --------------------------------------------------------------------------------- driver
def run_program(program):
    """Execute one simulated history; returns a JSON-able result record."""
    if "threads" in program:  # caller threads under the baton scheduler (sim/threads.py)
        from . import threads, threads18
        return (threads18 if program.get("property") == "C18" else threads).run(program)
    ctx = Ctx(program)
    status, viol, err = "ok", None, None
    try:
        ctx.run()
    except Violation as v:
        status = "violation"
        viol = {"property": v.prop, "invariant": v.inv, "detail": v.detail,
                "step": ctx.cur.sid if ctx.cur is not None else (max(ctx.step_out) if ctx.step_out else None)}
    except HarnessBound as b:
        status = "bound"
        err = str(b)
    except BaseException as e:  # noqa
        if isinstance(e, (KeyboardInterrupt, SystemExit)):
            raise
        status = "harness_error"
        err = "".join(traceback.format_exception(type(e), e, e.__traceback__))[-3000:]
    finally:
        try:
            ALLOC.disarm()
        except Exception:
            pass
    steps_out = [ctx.step_out[s["id"]] for s in program["steps"] if s["id"] in ctx.step_out]
    if viol is not None and viol.get("step") is None and steps_out:
        viol["step"] = steps_out[-1]["id"]
    mat = dict(program)
    mat["mode"] = "explicit"
    mat["steps"] = steps_out if status != "ok" else [ctx.step_out[s["id"]] for s in program["steps"]]
    stats = dict(ctx.stats)
    stats["shim_vmap_used"] = world.SHIM_USED["vmap"]
    stats["shim_linear_transpose_used"] = world.SHIM_USED["linear_transpose"]
    stats["clock_reads"] = CLOCK.reads
    stats["sim_seconds"] = CLOCK.now - 1_000_000.0
    stats["pbar_updates"] = FakeBar.updates
    stats["log_records"] = world.LOGCAP.count
    stats["steps"] = len(ctx.step_out)
    return {
        "status": status,
        "violation": viol,
        "error": err,
        "events_digest": jhash(ctx.events),
        "n_events": len(ctx.events),
        "stats": stats,
        "fired": dict(ctx.fired),
        "sched_sig": jhash(ctx.sched_sig),
        "nontrivial": bool(any(s.startswith("call") or s.startswith("make") for s in ctx.sched_sig)
                           and (ctx.stats["user_draws"] + ctx.stats["user_reseeds"] + sum(ctx.fired.values())
                                + ctx.stats["reenter_same_key"] + ctx.stats["reenter_other_key"]
                                + ctx.stats["reseed_inside_callback"]) > 0),
        "program": mat,
        "culprits": ctx.culprits[:5],
        "call_results": ({k: jhash(v["out"]) for k, v in list(ctx.results_by_epoch.items())
                          + [("|".join(ctx.import_epoch) + "#" + k, v) for k, v in ctx.results.items()]
                          if v["out"][0] != "warned"}
                         if ((program.get("config") or {}).get("letters") or program.get("want_results")) else None),
        "results_digest": jhash({k: v["out"] for k, v in list(ctx.results_by_epoch.items()) + list(ctx.results.items())}),
    }
